---- MODULE CMacroCases ----
EXTENDS Naturals, Sequences, TLC, Json
Id(s) == [s |-> s, k |-> "id", hs |-> {}]  Num(s) == [s |-> s, k |-> "num", hs |-> {}]  Op(s) == [s |-> s, k |-> "op", hs |-> {}]
LP == [s |-> "(", k |-> "lp", hs |-> {}]  RP == [s |-> ")", k |-> "rp", hs |-> {}]  CM == [s |-> ",", k |-> "comma", hs |-> {}]
HASH == [s |-> "#", k |-> "hash", hs |-> {}]  HH == [s |-> "##", k |-> "hashhash", hs |-> {}]
Obj(body) == [fn |-> FALSE, params |-> <<>>, va |-> FALSE, body |-> body]
Fn(params, body) == [fn |-> TRUE, params |-> params, va |-> FALSE, body |-> body]
VFn(params, body) == [fn |-> TRUE, params |-> params, va |-> TRUE, body |-> body]
\* C standard 6.10.3.5 EXAMPLE 3 (subset) and friends
Tab == [ x |-> Obj(<<Num("3")>>),
         f |-> Fn(<<"a">>, <<Id("f"), LP, Id("x"), Op("*"), LP, Id("a"), RP, RP>>),
         g |-> Obj(<<Id("f")>>),
         z |-> Obj(<<Id("z"), Op("["), Num("0"), Op("]")>>),
         h |-> Obj(<<Id("g"), LP, Op("~")>>),
         m |-> Fn(<<"a">>, <<Id("a"), LP, Id("w"), RP>>),
         w |-> Obj(<<Num("0"), CM, Num("1")>>),
         t |-> Fn(<<"a">>, <<Id("a")>>),
         p |-> Fn(<<>>, <<Id("int")>>),
         q |-> Fn(<<"x">>, <<Id("x")>>),
         r |-> Fn(<<"x","y">>, <<Id("x"), HH, Id("y")>>),
         str |-> Fn(<<"s">>, <<HASH, Id("s")>>),
         xstr |-> Fn(<<"s">>, <<Id("str"), LP, Id("s"), RP>>),
         cat |-> Fn(<<"a","b">>, <<Id("a"), HH, Id("b")>>),
         xcat |-> Fn(<<"a","b">>, <<Id("cat"), LP, Id("a"), CM, Id("b"), RP>>),
         AB |-> Obj(<<Num("7")>>),
         A |-> Obj(<<Id("A"), Op("+"), Id("B")>>),
         B |-> Obj(<<Id("A"), Op("*"), Id("B")>>),
         ev |-> VFn(<<"fmt">>, <<Id("pr"), LP, Id("fmt"), CM, Id("__VA_ARGS__"), RP>>),
         e0 |-> VFn(<<>>, <<Id("pr"), LP, Id("__VA_ARGS__"), RP>>),
         foo |-> Fn(<<"x">>, <<Id("bar"), Id("x")>>),
         lpar |-> Obj(<<LP>>),
         cx |-> Fn(<<"a","b">>, <<Id("a"), HH, Id("b"), HH, Id("a")>>),
         ee |-> Fn(<<"a","b">>, <<Num("1"), HH, Id("a"), HH, Id("b"), Op("+"), Id("a")>>) ]
INSTANCE CMacro WITH M <- Tab
Cases == <<
  <<Id("f"), LP, Id("y"), Op("+"), Num("1"), RP, Op("+"), Id("f"), LP, Id("f"), LP, Id("z"), RP, RP, Op("%"), Id("t"), LP, Id("t"), LP, Id("g"), RP, LP, Num("0"), RP, Op("+"), Id("t"), RP, LP, Num("1"), RP>>,
  <<Id("g"), LP, Id("x"), Op("+"), LP, Num("3"), CM, Num("4"), RP, Op("-"), Id("w"), RP, Op("|"), Id("h"), Num("5"), RP, Op("&"), Id("m"), LP, Id("f"), RP, Op("^"), Id("m"), LP, Id("m"), RP>>,
  <<Id("p"), LP, RP, Id("i"), Op("["), Id("q"), LP, RP, Op("]")>>,
  <<Id("xstr"), LP, Id("x"), RP, Id("str"), LP, Id("x"), RP>>,
  <<Id("xcat"), LP, Id("A"), CM, Id("B"), RP, Id("cat"), LP, Id("A"), CM, Id("B"), RP>>,
  <<Id("A"), Id("B")>>,
  <<Id("ev"), LP, Num("1"), CM, Id("x"), CM, Id("w"), RP, Id("e0"), LP, RP, Id("e0"), LP, Id("x"), CM, Num("2"), RP>>,
  <<Id("foo"), LP, Id("foo"), RP, LP, Num("2"), RP>>,
  <<Id("q"), LP, Id("q"), RP, LP, Num("5"), RP>>,
  <<Id("cat"), LP, CM, Id("x"), RP, Id("cat"), LP, Id("x"), CM, RP, Id("cat"), LP, CM, RP, Id("cx"), LP, CM, Id("x"), RP>>,
  <<Id("ee"), LP, Id("x"), CM, Num("2"), RP, Id("ee"), LP, CM, Num("2"), RP>>,
  <<Id("t"), LP, LP, Id("x"), CM, Id("x"), RP, RP, Id("t"), LP, Id("q"), LP, Id("x"), RP, RP>>
>>
ASSUME \A i \in 1..Len(Cases) : PrintT(<<i, Spell(Expand(Cases[i], 50))>>)
VARIABLE v
Init == v = 0
Next == v' = v
====
