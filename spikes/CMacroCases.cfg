INIT Init
NEXT Next
