#!/bin/bash
# Re-run every quick check on /repo's working tree, one after the other (nothing else should be running), so that
# evidence/*.json describes the committed machinery; then validate MANIFEST and evidence against the schemas.
cd "$(dirname "$0")"
rc_all=0
for p in C01 C02 C03 C04 C05 C06 C07 C08 C09 C10 C11 C12 C13 C14 C15 C16 C17 C18; do
  out=$(./check $p --tier quick 2>&1); rc=$?
  echo "$p rc=$rc $(echo "$out" | tail -1 | cut -c1-160)"
  [ $rc -ne 0 ] && rc_all=1 && echo "$out" | grep -E "VIOLATION|MACHINERY|failing\[" | head -5
done
python3-vt - <<'PY'
import json, jsonschema, glob
jsonschema.validate(json.load(open('MANIFEST.json')), json.load(open('/root/.vp/MANIFEST.schema.json')))
es = json.load(open('/root/.vp/EVIDENCE.schema.json'))
for f in sorted(glob.glob('evidence/*.json')):
    jsonschema.validate(json.load(open(f)), es)
print("MANIFEST and", len(glob.glob('evidence/*.json')), "evidence files conform to their schemas")
PY
exit $rc_all
