#!/bin/bash
# run every quick check under several seeds; print one line per run (used with `vp run`)
for s in ${SEEDS:-1 2 3}; do
  for p in C01 C02 C03 C04 C05 C06 C07 C08 C09 C10 C11 C12 C13 C14 C15 C16 C17 C18; do
    out=$(VERIF_SEED=$s ./check $p --tier ${TIER:-quick} 2>&1)
    rc=$?
    echo "seed=$s $p rc=$rc $(echo "$out" | grep -c '^VIOLATION') violations; $(echo "$out" | tail -1 | cut -c1-160)"
    if [ $rc -ne 0 ]; then echo "$out" | grep -E "failing\[|detail|MACHINERY" | head -8 | cut -c1-400; fi
  done
done
