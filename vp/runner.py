"""Parallel helpers: sharded TLC generation and a fork-based worker pool."""
import multiprocessing as mp
import os
from concurrent.futures import ThreadPoolExecutor

from . import core

NCPU = min(16, os.cpu_count() or 4)


def sharded_tlc(ctx, module, base_cfg_text, nshards, name, timeout=900, simulate=None, depth=None,
                seed=None, heap="2g"):
    """
    Run `nshards` TLC processes (1 worker each) on the same module with constants
    Shard = i, NShards = nshards appended to base_cfg_text.  Returns the list of all JSON
    cases printed.  Statistics are added to ctx (distinct states counted once: every shard
    explores the same graph and evaluates/prints only its own share).
    """
    cfgs = []
    for i in range(nshards):
        p = os.path.join(core.OUT, f"{name}_{os.getpid()}_s{i}.cfg")
        os.makedirs(core.OUT, exist_ok=True)
        with open(p, "w") as f:
            f.write(base_cfg_text.replace("@SHARD@", str(i)).replace("@NSHARDS@", str(nshards)))
        cfgs.append(p)

    def one(i):
        return core.tlc(module, cfgs[i], workers=1, timeout=timeout, tag=f"{name}{i}", simulate=simulate,
                        depth=depth, seed=(None if seed is None else seed * 1000 + i), heap=heap)

    try:
        with ThreadPoolExecutor(max_workers=min(nshards, NCPU)) as ex:
            rs = list(ex.map(one, range(nshards)))
    finally:
        for p in cfgs:
            try:
                os.unlink(p)
            except OSError:
                pass
    cases = []
    for r in rs:
        if r.violation:
            ctx.model_violation(name, r)
        cases.extend(r.json)
    r0 = rs[0]
    agg = core.TlcResult()
    agg.states = max(r.states for r in rs)
    agg.generated = max(r.generated for r in rs)
    agg.depth = r0.depth
    agg.wall = max(r.wall for r in rs)
    agg.json = cases
    ctx.add_tlc(name, agg, note=f"{nshards} shards (same graph; each prints its share)")
    return cases


def chunks(xs, n):
    k = max(1, (len(xs) + n - 1) // n)
    return [xs[i:i + k] for i in range(0, len(xs), k)]


class _HangMark:
    def __init__(self, kind, seconds, case):
        self.kind, self.seconds, self.case = kind, seconds, case


class _Guarded:
    """Runs a chunk function; a case whose time budget (core.tick) runs out, or that exhausts the
    worker's address space, ends the chunk and is reported to the parent."""

    def __init__(self, fn):
        self.fn = fn

    def __call__(self, c):
        core._WATCH["guarded"] = True
        core._WATCH["fired"] = 0
        try:
            return self.fn(c)
        except core.Hang:
            case, sec = core.current_case()
            return _HangMark("hang", sec, case)
        except (MemoryError, RecursionError) as e:
            case, sec = core.current_case()
            if case is None:
                raise
            return _HangMark(type(e).__name__, sec, case)
        finally:
            core.untick()
            core._WATCH["guarded"] = False


def _limit_memory():
    import resource
    try:
        resource.setrlimit(resource.RLIMIT_AS, (12 << 30, 12 << 30))
    except (ValueError, OSError):
        pass


def pmap(fn, items, nproc=NCPU, chunk=None):
    """fork-based parallel map over chunks; fn(chunk_list) -> result; returns list of results.
    Raises core.HangDetected when the implementation did not terminate on some case."""
    if not items:
        return []
    cs = chunks(items, nproc * 4 if chunk is None else max(1, len(items) // chunk))
    g = _Guarded(fn)
    if nproc <= 1 or len(cs) == 1:
        rs = [g(c) for c in cs]
    else:
        ctxm = mp.get_context("fork")
        with ctxm.Pool(nproc, initializer=_limit_memory) as pool:
            rs = pool.map(g, cs)
    marks = [r for r in rs if isinstance(r, _HangMark)]
    if marks:
        raise core.HangDetected([(m.kind, m.seconds, m.case) for m in marks])
    return rs
