"""Regenerate /verif/MANIFEST.json from the table below:  /venv/bin/python -m vp.manifest_gen"""
import json
import os

VERIF = os.path.dirname(os.path.dirname(os.path.abspath(__file__)))

HOOK_COMMITS = ["b9d4bd0", "034d117", "c156e58", "3391c72"]
FIX_COMMITS = ["d307ba7", "1245628", "e2789dc", "37d0178", "8d97c84", "106b808", "4ace02c", "398b1f9", "8e20502", "758bf79", "bcb9d1c", "736daa9", "680eb52", "15107c2", "4063672", "617df8f", "9d2bbf4", "e5013fd", "66a999c", "2a265e3", "cfd75aa", "dbe51ea", "cd9bfc4", "83aed22", "0c6007e", "f93d75f", "7cb8266", "0a75364"]

TRUST = ("TLC 1.8 and the TLA+ reference modules (cross-validated against gcc 12 / gfortran / git where an "
         "external tool exists); the Python harness only materialises TLC-generated cases, reformats traces and "
         "compares projected observables")

CHECKS = {
    "C01": dict(
        technique="TLA+ reference (PreprocCore) x implementation model (CbiVisitor) checked by TLC; TLC-generated "
                  "programs replayed into finder.find; hook traces validated by Trace_Preproc.tla",
        text="TLC checks on every well-nested program up to the bound, under all 25 -D assignments, that the model of "
             "CBI's tree builder + visitor attributes exactly what the ISO conditional-stack reference does and "
             "evaluates exactly the same conditions; the same enumeration (plus larger simulated programs and "
             "expressions that must not be evaluated) is rendered to real files and run through finder.find and "
             "compared per physical line; recorded executions are validated event by event against the spec. "
             "Exhaustive up to the bound, sampled beyond; the reference itself is validated against gcc -E.",
        design="3/C01"),
}

CHECKS["C04"] = dict(
    technique="TLA+ reference include machine (PreprocCore) + implementation model of the include memo "
              "(MC_IncludeMemo) checked by TLC; TLC-generated source trees replayed through load_database + "
              "finder.find; hook traces validated by Trace_Preproc.tla",
    text="TLC proves on the memo model that, for every existence map, include-path list and look-up history, the "
         "memoised search answers exactly what the memory-less compiler search would; the reference machine's "
         "invariants are checked on every generated tree; every tree of the exhaustive profile (same header name "
         "beside the includer / in -I / in -isystem, guarded/defining/including bodies, quote+angle+computed forms, "
         "all flag orders) and simulated richer trees are materialised and the per-line attribution of every file is "
         "compared with the reference, itself validated against gcc -E; Resolve/Enter/Exit/Visit events are "
         "trace-validated.",
    design="3/C04")
CHECKS["C08"] = dict(
    technique="TLA+ model of finder.find's per-command loop (MC_Isolation) explored by TLC over every TU order; "
              "TLC-simulated scenarios replayed in full / split / reordered / via `codebasin -p`; BeginTU trace validation",
    text="TLC checks that with a fresh per-command state the platform association equals the union of its commands "
         "analysed alone under every processing order (and exhibits counterexamples when the include-once set or the "
         "macro table is allowed to survive); generated multi-platform scenarios are run in full, split per command, "
         "with orders reversed and through the CLI with every -p subset, each compared with the reference's expectation; "
         "every traced TU must start with an empty memo, an empty include-once set and exactly the -D macros.",
    design="3/C08")

CHECKS["C02"] = dict(
    technique="TLA+ transcription of C integer-constant-expression semantics (CInt limb arithmetic cross-checked by "
              "TLC against native arithmetic; CExpr split-form parser + typed evaluation) as oracle; TLC-enumerated "
              "expressions replayed through IfNode.evaluate_for_platform and finder.find",
    text="CInt's 64-bit limb arithmetic is the same text TLC checks exhaustively against native arithmetic at 8 bits and "
         "on boundary pairs at 16 bits; GenCExpr enumerates every a-op-b over boundary literals, every ordered pair of "
         "binary operators, unary/ternary/parenthesised shapes and every literal spelling, and CExpr.Eval gives value, "
         "signedness and definedness; each well-defined expression is probed through the real evaluator for truth, exact "
         "value (==K / !=K), signedness and for not being evaluated in an #elif after a taken branch; the oracle is "
         "validated against gcc -E.",
    design="3/C02")

CHECKS["C03"] = dict(
    technique="TLA+ transcription of Prosser's macro expansion algorithm with hide sets (CMacro) as oracle, TLC "
              "invariants for termination and stability; TLC-enumerated tables x invocations replayed through "
              "MacroExpander.expand (#define and -D definitions) and #if truth",
    text="TLC checks on every table of the catalogues (18 x 9 x 10 definitions) and every invocation line that the "
         "reference expansion terminates within its fuel and is stable under re-expansion; every well-formed case is "
         "expanded by the real MacroExpander with the table given by #define directives and by -D strings and compared "
         "token by token (token boundaries; string literals character by character), after a redefinition of one macro, "
         "after re-evaluating the same parsed #define nodes for a second platform, and through the truth of `#if INV == k` "
         "(one number) / `#if INV + 1 == 1` (expansion to nothing) both on a Platform object and through finder.find with "
         "the table as command-line definitions; -DNAME is checked to behave as #define NAME 1; the reference agrees with "
         "gcc -E (tokenised) on the sampled cases (disagreement above 3% aborts with exit 2).",
    design="3/C03")

CHECKS["C05"] = dict(
    technique="TLC fixpoint on the product of a TLA+ model of c_cleaner/one_space_line/c_file_source and a reference "
              "translation-phase scanner (any text length); TLC-enumerated texts replayed through FileParser.parse_file "
              "against the TLA+ reference scanner CScan",
    text="The product automaton over character classes (VIEW hides the history) is explored to its fixpoint, so the "
         "agreement of counted lines and directive/code category holds for texts of any length over the modelled "
         "alphabet; every text up to the length bound and simulated token-level texts are parsed by the real FileParser "
         "and compared with CScan on counted lines, directive extents, code runs, total_sloc and double counting; a "
         "sample goes through cbi-cov.",
    design="3/C05")

CHECKS["C17"] = dict(
    technique="TLA+ product (MC_FLex) of an implementation model of the C pass + fortran_cleaner with the reference "
              "scanner FScan over character classes, checked by TLC to a fixpoint (any text length); one text family per "
              "transition of that graph and TLC-enumerated line sequences replayed through FileParser.parse_file; GenC01 "
              "programs rendered as Fortran replayed through finder.find",
    text="TLC explores the product of the cleaner model and the reference scanner over 9 character classes to a fixpoint "
         "(every text, any length, inside the stated alphabet) and checks that they agree at every line end; the model is "
         "bound to the code by one family of texts per transition of the product graph (judged by FScan through "
         "EvalFLex) and by every sequence of line templates up to the bound (and simulated longer texts), parsed by the "
         "real FileParser as .f90 files and compared on counted lines and directive extents; the conditional-selection "
         "clause reuses C01's enumerated programs rendered as Fortran (also as one continued statement interrupted by "
         "the directives) and compares per line; gfortran -cpp -E validates the expected selection on a sample.",
    design="3/C17")

CHECKS["C07"] = dict(
    technique="TLA+ definitions of the metrics with exact rationals (Metrics.tla); TLC checks the algebraic laws on "
              "every table and prints each table with its exact metrics; tables replayed into codebasin.report",
    text="TLC checks symmetry, zero diagonal, ranges, invariance under every platform renaming and under scaling, and "
         "NaN-exactly-when-undefined for the reference definitions on every table of the profile (platform sets absent or "
         "with counts incl. 0); every table is replayed into report.coverage/average_coverage/distance/divergence under "
         "several namings, key orders and scale factors up to 1e12 for every `platforms` subset and compared with the "
         "exact rational (rel. tol. 1e-9); printed summary metrics/rows and the clustering distance matrix are parsed "
         "back. Floating-point rounding itself is outside the technique.",
    design="3/C07")

CHECKS["C06"] = dict(
    technique="TLA+ definitions of the three reports over a per-line attribution (Reports.tla on top of PreprocCore and "
              "Metrics); TLC checks the report identities on generated scenarios and prints the expected summary table, "
              "tree rows and coverage partition; scenarios replayed through the three CLIs and parsed back; hook traces of the "
              "`codebasin` front end (fresh interpreter) validated by Trace_Preproc.tla",
    text="For every TLC-simulated scenario Reports.tla states what the summary table, every tree row (unpruned, pruned, "
         "depth-limited) and the coverage export must show, and TLC checks the identities (rows partition the lines, "
         "directory = sum of children, root = summary, prune drops exactly unused files, used/unused partition) on that "
         "attribution; the real `codebasin -R summary`, cbi-tree (--prune, -L) and cbi-cov are run on the same "
         "materialised tree (with symlinks and a zero-platform analysis) and their parsed outputs compared with the "
         "specification's expectation and with get_setmap. Exhaustive over the small profile c06s (512 scenarios), sampled "
         "(simulation) beyond it.",
    design="3/C06")

CHECKS["C16"] = dict(
    technique="TLA+ model of find_duplicates' digest-bucket + pop loop with arbitrary digest and pop order, checked by "
              "TLC against the byte-equality partition; TLC-enumerated code bases replayed into report.find_duplicates",
    text="TLC explores every content assignment, every digest function (collisions included) and every pop order of the "
         "loop model and checks it returns exactly the byte-equality classes of size >= 2; every code base of N files over "
         "a content pool (empty, length-only and one-byte differences) and five file kinds (regular, symlink, hard link, "
         "excluded, non-source) is materialised with identical timestamps and report.find_duplicates plus the printed "
         "section are compared with the reference groups. The real SHA-512 is used, so collision-only paths are covered by "
         "the model, not by the replay.",
    design="3/C16")

CHECKS["C10"] = dict(
    technique="TLA+ reference preprocessing machine without any notion of membership + Reports.tla additivity invariant "
              "checked by TLC; TLC-simulated scenarios replayed with exclude lists through finder.find and the three CLIs",
    text="TLC checks on simulated scenarios that removing any subset of code-base files removes exactly their lines from "
         "the platform-set table (the reference machine cannot consult membership, so nothing else can change); for each "
         "generated scenario the real pipeline is run with exclude lists matching every single file, every directory, all "
         "headers (with and without a negated re-inclusion) and random subsets, and the per-line attribution of every "
         "remaining file, get_setmap and the enumerated code base are compared with the no-exclusion expectation; -x and "
         "[codebase] exclude are compared through codebasin, cbi-tree and cbi-cov. Exhaustive over the small profile c06s "
         "(512 scenarios, every subset of files excluded in the model), sampled beyond it.",
    design="3/C10")

CHECKS["C15"] = dict(
    technique="TLA+ abstract file system with realpath semantics (FileSys) and an alias-spelling generator (GenAlias) "
              "checked by TLC; TLC-generated link sets and spellings replayed on GenScen scenarios through "
              "load_database + finder.find and compared with the canonical twin",
    text="TLC verifies for all 192 link sets that every generated alias spelling (through file links, directory links, "
         "links to an ancestor / outside / to a link, '.' and 'dir/..' detours incl. through directory links) resolves to "
         "its canonical target and that lexical normalisation is not a substitute; each simulated scenario is decorated "
         "with a link set, its compile commands and -I directories are spelled through those aliases, and attribution on "
         "the physical files, get_setmap, enumeration/membership and the tree report's directory figures are compared "
         "with the canonical twin given by the reference. Sampled pairs, not exhaustive.",
    design="3/C15")

CHECKS["C18"] = dict(
    technique="TLA+ reference machine records every reached include that resolves to no file (PreprocCore.warns) and "
              "GenScen.WarnExpect tallies unknown directives / ghost entries / unknown compiler / unknown option; TLC "
              "invariants; TLC-simulated scenarios replayed in-process and through the CLI",
    text="TLC checks that fully honoured scenarios expect no warning, that totals are the sums of the categories and that "
         "every include warning names a reached directive (the reference has no memo that could swallow a repeat); for "
         "each simulated scenario the multiset of issued include warnings (kind, file, line, name) and the counts of the "
         "other categories are compared with the specification in-process, and cbi.log plus the closing totals through "
         "the CLI. Exhaustive over the small profile c18s (48 scenarios: one computed include evaluated twice with its macro "
         "redefined in between), sampled beyond it; message formats are parsed with the regular expressions listed in DESIGN A.2.",
    design="3/C18")

CHECKS["C11"] = dict(
    technique="TLA+ reference left-to-right option scan (Argv.Scan) with TLC invariant; TLC-enumerated argument vectors "
              "replayed into config.ArgumentParser.parse_args and config.load_database (arguments and command forms); a "
              "sample of those executions recorded (hook event ParseArgs) and validated by Trace_Cfg.tla",
    text="Every argument vector up to the piece bound over a catalogue of recognised-option spellings and ~40 real "
         "unmodelled compiler options (plus simulated long vectors) is parsed by the real ArgumentParser for six compiler "
         "names and through load_database in both database forms; defines, search directories (-I then -isystem) and "
         "forced includes must equal what the reference scan extracts, followed by the compiler's configured implicit "
         "options, and no exception may escape. `--` (whose meaning differs between gcc and clang) and single-dash "
         "prefix abbreviations accepted by argparse are outside the catalogue.",
    design="3/C11")

CHECKS["C13"] = dict(
    technique="TLA+ path model for compilation-database entries (GenCompDb on FileSys.Resolve) checked by TLC; "
              "TLC-enumerated databases replayed into config.load_database and finder.find, gcc -E validating the model",
    text="TLC checks that an entry's resolution depends on that entry alone and yields canonical paths of existing source "
         "files; every single-entry database over the spelling catalogues (756) and simulated multi-entry databases are "
         "loaded by the real load_database: kept entries (in order), their file and include directories, and one warning "
         "per skipped entry must match the reference; gcc -E run from the entry's directory confirms the reference's "
         "reading of `file` and relative -I (disagreement above 2% aborts with exit 2); a finder.find run checks that only "
         "the kept entries' files and the header they include are attributed.",
    design="3/C13")

CHECKS["C12"] = dict(
    technique="TLA+ interpreter of the compiler-configuration language (CompilerCfg.Parse) + implementation model of "
              "the per-process compiler table processing a history of commands (GenCompilerCfg), checked by TLC; "
              "TLC-simulated configurations x histories replayed into config.ArgumentParser in one process; recorded "
              "parse_args executions (hook event ParseArgs; incl. the repository's test suite) validated by Trace_Cfg.tla",
    text="TLC checks on simulated configurations and command histories that every command's result equals the "
         "interpreter's result on the original table (history independence) and that alias resolution always ends in ok / "
         "loop / unknown target; each generated .cbi/config (three custom actions, defaults, override, implicit options, "
         "modes, passes, alias chains/cycles/dangling) is written as TOML and the real ArgumentParser processes the history "
         "in one process; passes, per-pass defines / include paths / include files and the reporting of alias and "
         "unknown-compiler outcomes are compared with the specification; whole histories also run as one compilation "
         "database through load_database + finder.find (probes by macro value). One small configuration space (profile h) "
         "is explored exhaustively; the four built-in definition files are converted mechanically and interpreted by the "
         "specification (EvalCompilerCfg) for every documented flag combination, alone and extended by a user "
         "configuration (CompilerCfg.Extend). The large space is sampled (simulation).",
    design="3/C12")

CHECKS["C14"] = dict(
    technique="TLA+ model of the pipeline with every runtime-chosen order explicit (MC_Schedules), confluence checked by "
              "TLC over all schedules; the explored schedules replayed into the real CLIs (platform table order, "
              "os.scandir shim, PYTHONHASHSEED) and compared with the Reports/Duplicates expectations",
    text="TLC explores every platform order, file enumeration order and extract_platforms order of the abstract pipeline "
         "and checks that table, label decoding through the legend, divergence and coverage are the canonical function of "
         "the input (and exhibits a counterexample when labels follow set iteration order); the distinct schedules are "
         "replayed into fresh interpreters running codebasin (summary, clustering distance matrix), cbi-tree, cbi-cov and "
         "-R duplicates on generated code bases (incl. hard links, cross-language symlinks, case-variant platform names); "
         "each run's parsed output must equal the specification's expectation as a mathematical object (ordering alone is "
         "never a violation). The hash-seed and enumeration-order spaces are sampled through the schedules, not enumerated.",
    design="3/C14")

CHECKS["C09"] = dict(
    technique="TLA+ transcription of gitignore semantics (GitIgnore.tla) and of membership over an abstract file system "
              "with realpath semantics (GenIgnore/FileSys), invariants checked by TLC; every pattern list replayed into "
              "CodeBase membership/enumeration on the materialised tree, git check-ignore validating the transcription",
    text="TLC checks for every list of up to 2 catalogue patterns on the fixed tree that membership is independent of the "
         "spelling (relative, absolute, '.', 'dir/..', through file/dir links) and that outside/dangling/non-source/sibling "
         "paths are never members; the same lists are given to the real CodeBase and `path in CodeBase` for every file and "
         "spelling plus list(CodeBase) are compared with the specification; git check-ignore --no-index must agree with "
         "GitIgnore.tla on every list (disagreement above 1% aborts with exit 2). The tree is fixed (one awkward tree), the "
         "pattern language is covered through a 36-pattern catalogue.",
    design="3/C09")

PENDING_REASON = "check not built yet (build in progress; see DESIGN.md section 7)"


def main():
    props = [json.loads(l) for l in open(os.path.join(VERIF, "properties.jsonl"))]
    checks = []
    na = []
    for p in props:
        pid = p["id"]
        if pid in CHECKS:
            c = CHECKS[pid]
            checks.append({
                "property_id": pid,
                "quick_cmd": f"./check {pid} --tier quick",
                "thorough_cmd": f"./check {pid} --tier thorough",
                "evidence_file": f"/verif/evidence/{pid}.json",
                "replay_cmd_template": f"./check {pid} --replay {{path}}",
                "engine": "tlc",
                "level_claimed": {"category": "model_checking", "text": c["text"], "design_ref": c["design"]},
                "level_note": c.get("note", TRUST),
                "technique": c["technique"],
            })
        else:
            na.append({"property_id": pid, "reason": PENDING_REASON})
    m = {
        "version": 1,
        "setup_cmd": "./check setup",
        "hooks": {
            "guard": "CBI_VERIF",
            "enable": "pure Python, nothing to build: the harness imports codebasin from /repo's working tree "
                      "(CBI_REPO overrides the path) and switches codebasin._detail.verif.ENABLED on per traced run "
                      "(equivalently CBI_VERIF=1 CBI_VERIF_TRACE=<ndjson> in the environment of a CLI run)",
            "baseline_off_cmd": "cd /repo && env -u CBI_VERIF -u CBI_VERIF_TRACE /venv/bin/python -m pytest -ra -q "
                                "-p no:cacheprovider --timeout=900 --continue-on-collection-errors",
            "source_commits": HOOK_COMMITS,
            "add_only": True,
        },
        "engines": [{
            "name": "tlc", "path": "/usr/local/bin/tlc",
            "serves_properties": [c["property_id"] for c in checks],
            "kind_free_text": "TLC 1.8 explicit-state model checker over the TLA+ modules in /verif/specs, driven by "
                              "/verif/check (Python harness under /verif/vp)",
        }],
        "checks": checks,
        "not_applicable": na,
        "notes": "Model-based verification with explicit TLA+ specifications; see DESIGN.md. Exit 2 = machinery failure.",
    }
    with open(os.path.join(VERIF, "MANIFEST.json"), "w") as f:
        json.dump(m, f, indent=1)
    print(f"{len(checks)} checks, {len(na)} pending")


if __name__ == "__main__":
    main()
