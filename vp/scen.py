"""
Materialise GenScen scenarios (abstract source trees + translation units) as real files and
compilation databases, run the real pipeline (config.load_database -> finder.find) and project
the result onto the specification's observable:  platform -> file -> set(physical lines).
"""
import json
import os
import random
import shutil
import tempfile

from . import cbi, render

INSIDE = {"src": "src", "inc": "inc", "sys": "sys/include", "bld": "build"}


# every command defines the stringifying helper that rendered sources may use in `#define HDR XSTR( h.h )`
XSTR_DEF = "XSTR(x)=#x"
XSTR_ARG = "-D" + XSTR_DEF


def x_args(e, rnd=None):
    """command-line spelling of the entry's definition of X"""
    if e["x"] == "U":
        return []
    if e["x"] == "1":
        return rnd.choice([["-DX"], ["-D", "X"], ["-DX=1"]]) if rnd else ["-DX"]
    return rnd.choice([["-DX=" + e["x"]], ["-D", "X=" + e["x"]]]) if rnd else ["-DX=" + e["x"]]


def x_defs(e):
    """the same as `defines` strings of a finder.find entry"""
    return [] if e["x"] == "U" else (["X"] if e["x"] == "1" else ["X=" + e["x"]])


class Mat:
    """A materialised scenario."""

    def __init__(self, scen, base, seed=0, alias=None, ext_c=".c", plain=False, ext_of=None, dotted=False, crlf=(), spill=False):
        self.scen = scen
        self.base = base                      # temp dir
        self.root = os.path.join(base, "root")
        self.extdir = os.path.join(base, "root_old", "ext")   # a sibling whose name has the root's name as a prefix
        self.seed = seed
        self.paths = {}                       # file id -> absolute canonical path
        self.lines_of = {}                    # file id -> list (per item) of physical lines
        self.text = {}
        os.makedirs(self.root)
        # `#define HDR XSTR( h.h )` is only a valid spelling where HDR is not also defined (to "h.h") on the
        # command line: a redefinition must repeat the same tokens
        xstr = all(e.get("hdr", "U") == "U" for e in scen["ents"])
        for fid, f in sorted(scen["files"].items(), key=lambda kv: bool(kv[1].get("copyof"))):
            d = self.dir_path(f["dir"])
            os.makedirs(d, exist_ok=True)
            if f["name"].startswith("tosub/"):
                # a name that goes through the directory link inc/tosub -> src/sub and back up: physically src/<name>
                os.makedirs(os.path.join(self.root, "src", "sub"), exist_ok=True)
                if not os.path.lexists(os.path.join(d, "tosub")):
                    os.symlink(os.path.join("..", "src", "sub"), os.path.join(d, "tosub"))
            elif "/" in f["name"]:
                os.makedirs(os.path.dirname(os.path.join(d, f["name"])), exist_ok=True)
            name = f["name"]
            if ext_of and fid in ext_of:
                # the same source text under another (C-family) extension, e.g. a C++ translation unit
                name = os.path.splitext(name)[0] + ext_of[fid]
            path = os.path.join(d, name)
            rnd = random.Random(f"{seed}-{fid}")
            if f.get("copyof"):
                # a byte-identical copy of another file of the tree
                text, lines_of = self.text[f["copyof"]], self.lines_of[f["copyof"]]
            else:
                # a file that gets a Fortran extension is written as Fortran (same items, same line structure)
                is_f = bool(ext_of and ext_of.get(fid, "").lower() in (".f90", ".f"))
                text, lines_of = render.render_c(f["items"], seed=rnd.random(), uid="v" + "".join(c for c in fid if c.isalnum()),
                                                 plain=plain, xstr=xstr and not is_f, dotted=dotted, fortran=is_f, spill=spill)
            if f.get("copyof") and random.Random(f"{seed}-hardlink").random() < 0.5:
                # the copy is a second directory entry of the same inode (cp -l): still an ordinary file
                os.link(self.paths[f["copyof"]], path)
            else:
                # newline="" keeps the text as is; files listed in `crlf` get DOS line endings (same lines)
                with open(path, "w", newline="") as fh:
                    fh.write(text.replace("\n", "\r\n") if fid in crlf else text)
            self.paths[fid] = os.path.realpath(path)
            self.lines_of[fid] = lines_of
            self.text[fid] = text

    def dir_path(self, d):
        if d == "ext":
            return self.extdir
        if d == "root":
            return self.root
        return os.path.join(self.root, INSIDE[d])

    # ---- compile commands -------------------------------------------------------------
    def argv(self, e, rnd, spell_dir=None, spell_file=None):
        spell_dir = spell_dir or (lambda d: self.dir_path(d))
        a = [e.get("cc", "gcc")]
        if e.get("xflag"):
            a.append(e["xflag"])
        a += x_args(e, rnd)
        a += [XSTR_ARG]
        if e.get("hdr", "U") != "U":
            a += ["-DHDR=" + render.val_text(e["hdr"])]
        for r in e["idirs"]:
            p = spell_dir(r["d"])
            if r["sys"]:
                a += ["-isystem", p]
            else:
                a += rnd.choice([["-I", p], ["-I" + p]])
        for n in e["forced"]:
            a += ["-include", n]
        a += ["-c", spell_file(e["file"]) if spell_file else self.paths[e["file"]]]
        return a

    def database(self, ents, rnd, **kw):
        db = []
        for e in ents:
            if e.get("ghost"):
                ghost = os.path.join(self.root, "src", f"generated_{len(db)}.c")
                db.append({"directory": self.root, "file": ghost, "arguments": ["gcc", "-c", ghost]})
            ent = {"directory": self.root, "file": (kw.get("spell_file") or (lambda f: self.paths[f]))(e["file"]),
                   "arguments": self.argv(e, rnd, **{k: v for k, v in kw.items() if k != "mixed_dirs"})}
            if kw.get("mixed_dirs") and not e["forced"]:
                form = rnd.choice(["keyed_root", "keyed_other_abs", "keyless_rel"])
                if form == "keyed_other_abs":
                    # another working directory; everything spelled absolutely, so it does not matter
                    os.makedirs(os.path.join(self.root, "build"), exist_ok=True)
                    ent["directory"] = os.path.join(self.root, "build")
                elif form == "keyless_rel":
                    # no "directory": relative paths are relative to the analysis root
                    del ent["directory"]
                    rr = os.path.realpath(self.root)

                    def relroot(p):
                        return os.path.relpath(p, rr) if os.path.realpath(p).startswith(rr + os.sep) else p
                    ent["file"] = relroot(ent["file"])
                    args = []
                    for a in ent["arguments"]:
                        if a.startswith("-I") and len(a) > 2 and os.path.isabs(a[2:]):
                            a = "-I" + relroot(a[2:])
                        elif os.path.isabs(a) and os.path.exists(a):
                            a = relroot(a)
                        args.append(a)
                    ent["arguments"] = args
            db.append(ent)
        return db

    def load_configuration(self, ents_by_plat, rnd, **kw):
        """Write one compilation database per platform and load it with the real loader."""
        from codebasin import config
        conf = {}
        for plat, ents in ents_by_plat.items():
            dbp = os.path.join(self.base, f"cc_{plat}_{rnd.randrange(10**9)}.json")
            with open(dbp, "w") as f:
                json.dump(self.database(ents, rnd, **kw), f)
            conf[plat] = config.load_database(dbp, self.root)
        return conf

    # ---- expectations -------------------------------------------------------------------
    def expected_lines(self, attr_pairs):
        """attr_pairs: list of [fid, idx(1-based)] -> {fid: set(lines)}"""
        out = {fid: set() for fid in self.paths}
        for fid, idx in attr_pairs:
            out[fid].update(self.lines_of[fid][idx - 1])
        return out

    def all_lines(self, fid):
        s = set()
        for ls in self.lines_of[fid]:
            s.update(ls)
        return s

    def observed(self, state, plats):
        """{plat: {fid: set(lines)}} for every file CBI parsed; None for files it never parsed."""
        out = {p: {} for p in plats}
        counted = {}
        for fid, path in self.paths.items():
            la = cbi.line_attr(state, path)
            if la is None:
                for p in plats:
                    out[p][fid] = None
                continue
            la.pop("__dup__", None)
            counted[fid] = set(la)
            for p in plats:
                out[p][fid] = {ln for ln, ps in la.items() if p in ps}
        return out, counted

    def cleanup(self):
        shutil.rmtree(self.base, ignore_errors=True)


def ents_by_plat(scen):
    out = {}
    for e in scen["ents"]:
        out.setdefault(e["plat"], []).append(e)
    return out


def expected_by_plat(m, scen, only=None):
    """Union over a platform's TUs (each analysed alone by the reference)."""
    exp = {}
    for i, e in enumerate(scen["ents"]):
        if only is not None and i not in only:
            continue
        el = m.expected_lines(scen["res"][i]["attr"])
        d = exp.setdefault(e["plat"], {fid: set() for fid in m.paths})
        for fid, ls in el.items():
            d[fid] |= ls
    return exp


def features(scen):
    """Feature tags of a scenario (abstract input descriptor for known-findings matching)."""
    t = set()
    files = scen["files"]
    names = {}
    for fid, f in files.items():
        names.setdefault(f["name"], set()).add(f["dir"])
    for n, ds in names.items():
        if len(ds) > 1:
            t.add("hdr.same_name_multi_dir")
    forms = {}
    for fid, f in files.items():
        for it in f["items"]:
            if it["k"] == "include":
                forms.setdefault(it["name"], set()).add(it["form"])
            if it["k"] == "includem":
                t.add("inc.computed")
            if it["k"] == "once":
                t.add("hdr.once")
    if any(len(v) > 1 for v in forms.values()):
        t.add("inc.both_forms_same_name")
    for e in scen["ents"]:
        seen_sys = False
        for r in e["idirs"]:
            if r["sys"]:
                seen_sys = True
            elif seen_sys:
                t.add("argv.isystem_before_I")
        if e["forced"]:
            t.add("argv.forced_include")
            maindir = files[e["file"]]["dir"]
            for n in e["forced"]:
                if any(f["dir"] == maindir and f["name"] == n for f in files.values()):
                    # the forced header's name also exists beside the main file, where a compiler
                    # does NOT look first for -include (it starts from its working directory)
                    t.add("argv.forced_name_beside_main")
    if any(not r["ok"] for r in scen["res"]):
        t.add("illformed")
    if any(r["warns"] for r in scen["res"]):
        t.add("missing_include")
    return t


def well_formed(scen):
    return all(r["ok"] for r in scen["res"])


def compare(m, scen, state, exp, label=""):
    """Returns list of mismatch descriptions (empty = equal)."""
    plats = list(exp)
    obs, counted = m.observed(state, plats)
    out = []
    for fid in m.paths:
        if fid in counted and counted[fid] != m.all_lines(fid):
            out.append(f"{label}counted lines of {fid}: got {sorted(counted[fid])} want {sorted(m.all_lines(fid))}")
    for p in plats:
        for fid in m.paths:
            o = obs[p][fid]
            e = exp[p][fid]
            if o is None:
                if e:
                    out.append(f"{label}{p}:{fid} never parsed but reference uses lines {sorted(e)}")
                continue
            if o != e:
                out.append(f"{label}{p}:{fid} extra={sorted(o - e)} missing={sorted(e - o)}")
    return out


def new_base(workdir):
    return tempfile.mkdtemp(prefix="scen-", dir=workdir)
