"""Parse TLC's `-dump dot,actionlabels` of MC_CLex into per-transition witness texts."""
import re

CLASS_CHAR = {"L": "a", "S": " ", "/": "/", "*": "*", "Q": '"', "q": "'", "B": "\\", "#": "#"}
# completions: closers for an open literal/comment followed by "revealers" (a comment spanning a
# newline exposes a wrong lexical state on the following physical line)
SUFFIXES = ["", "*/", "*/ x", '"', "'", " x", "*/\nx", "\n*/ x", "\nx", "x*/",
            "'' /*\nx*/", '"" /*\nx*/', "' /*\nx*/", '" /*\nx*/',
            "/ x */ y", "/x\n*/", "\n/ x */ y"]

NODE = re.compile(r'^(-?\d+) \[label="')
EDGE = re.compile(r'^(-?\d+) -> (-?\d+) \[label="(.*?)",color')
HIST = re.compile(r'hist = <<(.*?)>>')
TOK = re.compile(r'\\"(.*?)\\"')
SPLICE = "\\\\\\\\n"   # four backslashes + n in the dot text
NEWLINE = "\\\\n"      # two backslashes + n


def conv(tok):
    if tok == SPLICE:
        return "\\\n"
    if tok == NEWLINE:
        return "\n"
    return CLASS_CHAR[tok]


F_CLASS_CHAR = {"L": "a", "O": "1", "S": " ", "!": "!", "&": "&", "Q": '"', "q": "'", "$": "$", "#": "#"}
# completions for free-form Fortran: close an open literal / finish a continued statement, then reveal the
# scanner state on the following lines (comment line inside a continuation, leading &, directive)
F_SUFFIXES = ["", "'", '"', " x", "\nx = 1", "'\nx = 1", '"\nx = 1', "&\n&'\nx = 1", '&\n&"\nx = 1',
              "\n& x\ny = 2", "x\n! c\nx = 2", " &\n ! c\n & y\nz = 3", "\n#define X\n& y\nz = 3",
              "'//\"!&\" ! c\nx = 1", " x &\n!$omp p\n", "\n!DIR$ IVDEP\nx = 1"]


def transition_texts(dot_path, class_char=None, suffixes=None, splice_action="Splice", nl_action="NL"):
    """
    One family of texts per TRANSITION of the product graph: the input history of the source
    state (recorded in the dumped state), the transition's own input, and a set of completions.
    Returns (sorted texts, number of transitions).
    """
    hist = {}
    edges = []
    for line in open(dot_path):
        m = EDGE.match(line)
        if m:
            edges.append((m.group(1), m.group(3)))
            continue
        m = NODE.match(line)
        if m:
            h = HIST.search(line)
            hist[m.group(1)] = TOK.findall(h.group(1)) if h else []
    texts = set()
    ntr = 0
    for src, label in edges:
        if src not in hist:
            continue
        cc = class_char or CLASS_CHAR
        base = "".join(conv(t) if t in (SPLICE, NEWLINE) else cc[t] for t in hist[src])
        if label.startswith("Feed"):
            c = TOK.search(label).group(1)
            ev = cc[c]
        elif label.startswith(splice_action):
            ev = "\\\n"
        elif label.startswith(nl_action):
            ev = "\n"
        else:
            continue
        ntr += 1
        for suf in (suffixes or SUFFIXES):
            texts.add(base + ev + suf + "\n")
    return sorted(texts), ntr
