"""Parse TLC's `-dump dot,actionlabels` of MC_CLex into per-transition witness texts."""
import re

CLASS_CHAR = {"L": "a", "S": " ", "/": "/", "*": "*", "Q": '"', "q": "'", "B": "\\", "#": "#"}
# completions: closers for an open literal/comment followed by "revealers" (a comment spanning a
# newline exposes a wrong lexical state on the following physical line)
SUFFIXES = ["", "*/", "*/ x", '"', "'", " x", "*/\nx", "\n*/ x", "\nx", "x*/",
            "'' /*\nx*/", '"" /*\nx*/', "' /*\nx*/", '" /*\nx*/',
            "/ x */ y", "/x\n*/", "\n/ x */ y"]

NODE = re.compile(r'^(-?\d+) \[label="')
EDGE = re.compile(r'^(-?\d+) -> (-?\d+) \[label="(.*?)",color')
HIST = re.compile(r'hist = <<(.*?)>>')
TOK = re.compile(r'\\"(.*?)\\"')
SPLICE = "\\\\\\\\n"   # four backslashes + n in the dot text
NEWLINE = "\\\\n"      # two backslashes + n


def conv(tok):
    if tok == SPLICE:
        return "\\\n"
    if tok == NEWLINE:
        return "\n"
    return CLASS_CHAR[tok]


def transition_texts(dot_path):
    """
    One family of texts per TRANSITION of the product graph: the input history of the source
    state (recorded in the dumped state), the transition's own input, and a set of completions.
    Returns (sorted texts, number of transitions).
    """
    hist = {}
    edges = []
    for line in open(dot_path):
        m = EDGE.match(line)
        if m:
            edges.append((m.group(1), m.group(3)))
            continue
        m = NODE.match(line)
        if m:
            h = HIST.search(line)
            hist[m.group(1)] = TOK.findall(h.group(1)) if h else []
    texts = set()
    ntr = 0
    for src, label in edges:
        if src not in hist:
            continue
        base = "".join(conv(t) for t in hist[src])
        if label.startswith("Feed"):
            c = TOK.search(label).group(1)
            ev = CLASS_CHAR[c]
        elif label.startswith("Splice"):
            ev = "\\\n"
        elif label.startswith("NL"):
            ev = "\n"
        else:
            continue
        ntr += 1
        for suf in SUFFIXES:
            texts.add(base + ev + suf + "\n")
    return sorted(texts), ntr
