"""
Trace validation of finder.find executions against specs/Trace_Preproc.tla.

The harness only REFORMATS: it splits the NDJSON event stream into one trace per
finder.find run, attaches the program as CBI itself parsed it (node kinds and lines, by
re-parsing each file with the language CBI logged), gives every event the same fields, and
hands the batch to TLC.  Every judgement is made by the specification.
"""
import json
import os
import re
import tempfile

from . import core

FIELDS = dict(e="", file="", kind="", line=0, name="", applied=False, active=False, result="none",
              n1=0, n2=0, names=[], dnames=[])

KIND = {
    "CodeNode": "code", "IfNode": "if", "ElIfNode": "elif", "ElseNode": "else", "EndIfNode": "endif",
    "DefineNode": "define", "UndefNode": "undef", "IncludeNode": "include",
    "UnrecognizedDirectiveNode": "unknown",
}

PREPROC_EVENTS = {"Parsed", "BeginTU", "EndTU", "Enter", "Exit", "Visit", "Active", "Define", "Undef", "Once", "Resolve"}

_items_cache = {}


def items_of(path, lang):
    """The node list of `path` in source order, as PreprocCore/Trace items."""
    from codebasin import file_parser
    key = (path, lang, os.path.getmtime(path))
    if key in _items_cache:
        return _items_cache[key]
    tree = file_parser.FileParser(path).parse_file(summarize_only=True, language=lang)
    out = []
    for node in tree.walk():
        tn = type(node).__name__
        if tn == "FileNode":
            continue
        if tn == "PragmaNode":
            k = "once" if (node.expr and str(node.expr[0]) == "once") else "other"
        else:
            k = KIND.get(tn, "other")
        m = ""
        if tn in ("DefineNode", "UndefNode"):
            m = str(node.identifier.token)
        out.append({"k": k, "line": int(node.start_line), "m": m, "v": "1"})
    _items_cache[key] = out
    return out


def _dname(d):
    m = re.match(r"\s*([A-Za-z_]\w*)", d)
    return m.group(1) if m else d


def norm_event(ev):
    o = dict(FIELDS)
    o["names"] = []
    o["dnames"] = []
    e = ev["ev"]
    o["e"] = e
    for k in ("file", "kind", "name"):
        if k in ev and ev[k] is not None:
            o[k] = str(ev[k])
    if "line" in ev:
        o["line"] = int(ev["line"] or 0)
    if "applied" in ev:
        o["applied"] = bool(ev["applied"])
    if "active" in ev:
        o["active"] = bool(ev["active"])
    if e == "Resolve":
        o["name"] = str(ev.get("spelling", ""))
        o["result"] = "none" if ev.get("result") is None else os.path.realpath(ev["result"])
    if e == "BeginTU":
        o["n1"] = int(ev.get("nmemo", 0))
        o["n2"] = int(ev.get("nonce", 0))
        o["names"] = sorted(ev.get("defnames", []))
        o["dnames"] = sorted({_dname(d) for d in ev.get("defines", [])})
    if e in ("Enter", "Exit", "Once", "BeginTU", "EndTU") and o["file"]:
        o["file"] = os.path.realpath(o["file"])
    return o


def split_runs(events):
    """
    One trace per finder.find call.  A run is a maximal sequence of Parsed events (the
    up-front parse) followed by TU groups; a Parsed event seen while no TU is open and
    after at least one EndTU starts a new run.
    """
    runs = []
    cur = None
    intu = False
    seen_tu = False
    for ev in events:
        e = ev["ev"]
        if e not in PREPROC_EVENTS:
            continue                      # events of other layers (e.g. ParseArgs: see trace_cfg)
        if cur is None or (e == "Parsed" and not intu and seen_tu):
            cur = {"parsed": {}, "ev": []}
            runs.append(cur)
            seen_tu = False
        if e == "Parsed":
            cur["parsed"][ev["file"]] = ev.get("lang")
            continue
        if e == "BeginTU":
            intu = True
        if e == "EndTU":
            intu = False
            seen_tu = True
        cur["ev"].append(ev)
    return runs


def load_trace_file(path, ident):
    evs = []
    with open(path) as f:
        for line in f:
            line = line.strip()
            if line:
                evs.append(json.loads(line))
    out = []
    for i, run in enumerate(split_runs(evs)):
        if not run["ev"]:
            continue
        files = {}
        ok = True
        for fn, lang in run["parsed"].items():
            if not os.path.exists(fn):
                ok = False
                break
            files[os.path.realpath(fn)] = items_of(fn, lang)
        if not ok:
            continue
        out.append({"id": f"{ident}#{i}", "files": files, "ev": [norm_event(e) for e in run["ev"]]})
    return out


def run_tlc(traces, tag="trace"):
    """Returns (verdicts, tlc result).  traces: list of dicts from load_trace_file."""
    os.makedirs(core.OUT, exist_ok=True)
    fd, path = tempfile.mkstemp(prefix=f"{tag}-", suffix=".json", dir=core.OUT)
    with os.fdopen(fd, "w") as f:
        json.dump(traces, f)
    try:
        r = core.tlc("Trace_Preproc", "Trace_Preproc.cfg", workers=1, timeout=3000,
                     env={"TRACE_FILE": path}, tag=tag, heap="6g")
    finally:
        os.unlink(path)
    verdicts = [j for j in r.json if isinstance(j, dict) and "verdict" in j]
    return verdicts, r


def validate(ctx, trace_files, tag="C01", loaded=None):
    """trace_files: list of (ndjson path, ident); loaded: traces already in Trace_Preproc form."""
    traces = list(loaded or [])
    for tf, ident in trace_files:
        try:
            traces.extend(load_trace_file(tf, str(ident)))
        except Exception as e:  # malformed trace = machinery problem
            raise core.MachineryError(f"cannot load trace {tf}: {e}")
    if not traces:
        ctx.cov["traces_recorded"] = 0
        return
    # batches of bounded size: one TLC run reads its whole batch as a single JSON value
    batches, cur, size = [], [], 0
    for t in traces:
        n = len(t["ev"]) * 260 + sum(len(v) for v in t["files"].values()) * 60 + 200
        if cur and (size + n > 40_000_000 or len(cur) >= 1500):
            batches.append(cur)
            cur, size = [], 0
        cur.append(t)
        size += n
    if cur:
        batches.append(cur)
    from concurrent.futures import ThreadPoolExecutor
    with ThreadPoolExecutor(max_workers=min(4, len(batches))) as ex:
        results = list(ex.map(lambda ib: run_tlc(ib[1], tag=f"trace{tag}{ib[0]}"), enumerate(batches)))
    verdicts = []
    r = results[0][1]
    off = 0
    for b, (vs, rb) in zip(batches, results):
        if rb.violation:
            ctx.model_violation("Trace_Preproc", rb)
        if len(vs) != len(b):
            raise core.MachineryError(f"Trace_Preproc judged {len(vs)} of {len(b)} traces\n" + rb.stdout[-1500:])
        for v in vs:
            verdicts.append(dict(v, verdict=v["verdict"] + off))
        off += len(b)
        if rb is not r:
            r.states += rb.states
            r.generated += rb.generated
            r.wall = max(r.wall, rb.wall)
    ctx.add_tlc("Trace_Preproc", r, note=f"{len(traces)} traces, {sum(len(t['ev']) for t in traces)} events, "
                                         f"{len(batches)} TLC run(s)")
    ctx.cov["traces_validated_against_impl"] += len(traces)
    ctx.cov["trace_events"] = ctx.cov.get("trace_events", 0) + sum(len(t["ev"]) for t in traces)
    for v in verdicts:
        if not v["ok"]:
            t = traces[v["verdict"] - 1]
            at = v["at"]
            ctx.fail("V", ["trace"], f"trace-rejected:{v['clause']}",
                     f"trace {v['id']} rejected at event {at}/{v['events']}: {v['clause']}; "
                     f"event={t['ev'][at - 1] if at - 1 < len(t['ev']) else None}; "
                     f"previous={t['ev'][max(0, at - 4):at - 1]}",
                     case={"trace": t["id"], "files": t["files"], "events": t["ev"][:at + 2]})
    if traces:
        t0 = traces[0]
        ctx.sample({"trace": t0["id"], "first_events": [{k: v for k, v in e.items() if v not in ("", 0, [], False, "none")} for e in t0["ev"][:12]]})
