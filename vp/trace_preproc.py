"""Trace validation against Trace_Preproc.tla (stub; filled in below)."""


def validate(ctx, traces):
    ctx.cov["traces_recorded"] = len(traces)
