"""
./check selftest mutant <patch.diff> <property> [<property> ...]
    copy /repo's working tree to a scratch dir (outside /repo and /verif), apply the patch,
    run the named checks against it (CBI_REPO), print their verdicts, remove the copy.
./check selftest seeded            run every /verif/seeded/<id>/patch.diff against its property
./check selftest mutants [prefix]  run every /verif/mutants/*.diff listed in index.json
Evidence files are restored afterwards (a self-test never leaves mutant evidence behind).
"""
import json
import os
import shutil
import subprocess
import sys
import tempfile

from . import core


def run_on_mutant(patch, props, tier="quick"):
    tmp = tempfile.mkdtemp(prefix="cbi-mutant-")
    dst = os.path.join(tmp, "repo")
    try:
        subprocess.run(["git", "clone", "-q", "/repo", dst], check=True)
        subprocess.run(["git", "-C", dst, "config", "user.email", "v@v"], check=True)
        subprocess.run(["git", "-C", dst, "config", "user.name", "v"], check=True)
        r = subprocess.run(["git", "-C", dst, "apply", "-3", os.path.abspath(patch)], capture_output=True, text=True)
        if r.returncode != 0:
            subprocess.run(["git", "-C", dst, "reset", "-q", "--hard"], check=True)
            r = subprocess.run(["patch", "-p1", "--fuzz=3", "-d", dst, "-i", os.path.abspath(patch)],
                               capture_output=True, text=True)
            if r.returncode != 0:
                return {p: ("apply-failed", 0, r.stdout + r.stderr) for p in props}
        out = {}
        for p in props:
            # the mutant's evidence goes to the scratch area: /verif/evidence describes /repo only
            env = dict(os.environ, CBI_REPO=dst, VERIF_TIER=tier, VERIF_EVID=os.path.join(tmp, "evidence"))
            try:
                c = subprocess.run([os.path.join(core.VERIF, "check"), p], cwd=core.VERIF, env=env,
                                   capture_output=True, text=True, timeout=7200)
            except subprocess.TimeoutExpired as e:
                out[p] = ("timeout", 0, str(e.stdout)[-1500:])
                continue
            viol = [l for l in c.stdout.splitlines() if l.startswith("VIOLATION")]
            out[p] = (c.returncode, len(viol), c.stdout[-1500:])
        return out
    finally:
        shutil.rmtree(tmp, ignore_errors=True)


def main(rest):
    if not rest:
        print(__doc__)
        return 2
    if rest[0] == "mutant":
        res = run_on_mutant(rest[1], rest[2:])
        for p, v in res.items():
            print(f"{os.path.basename(rest[1])} -> {p}: rc={v[0]} violations={v[1]}")
            if "-v" in sys.argv or v[0] not in (0, 1):
                print(v[-1])
        return 0
    if rest[0] == "seeded":
        base = os.path.join(core.VERIF, "seeded")
        rows = []
        for d in sorted(os.listdir(base)):
            if len(rest) > 1 and not d.startswith(rest[1]):
                continue
            meta = json.load(open(os.path.join(base, d, "meta.json")))
            res = run_on_mutant(os.path.join(base, d, "patch.diff"), [meta["property"]])
            v = res[meta["property"]]
            print(f"{d}: property={meta['property']} rc={v[0]} violations={v[1]}", flush=True)
            rows.append((d, v[0]))
        return 0
    if rest[0] == "mutants":
        idx = json.load(open(os.path.join(core.VERIF, "mutants", "index.json")))
        for m in idx:
            if len(rest) > 1 and not m["id"].startswith(rest[1]):
                continue
            res = run_on_mutant(os.path.join(core.VERIF, "mutants", m["id"] + ".diff"), [m["property"]])
            v = res[m["property"]]
            print(f"{m['id']}: kind={m['kind'][:10]} tests={m['baseline_tests']} rc={v[0]} violations={v[1]}", flush=True)
        return 0
    if rest[0] == "all":
        # every design-phase mutant and every seeded change against its property; results are
        # written to /verif/selftest_results.json (committed, referenced by DESIGN.md section 8.4).
        # `selftest all j N` runs N of them side by side (each check is itself parallel).
        import threading
        from concurrent.futures import ThreadPoolExecutor
        jobs = 1
        if "j" in rest:
            jobs = int(rest[rest.index("j") + 1])
        items = []
        idx = json.load(open(os.path.join(core.VERIF, "mutants", "index.json")))
        if "seeded-only" in rest:
            idx = []
        for m in idx:
            items.append(("mutants/" + m["id"], os.path.join(core.VERIF, "mutants", m["id"] + ".diff"), m["property"],
                          {"property": m["property"], "kind": m["kind"], "tests": m["baseline_tests"]}))
        base = os.path.join(core.VERIF, "seeded")
        for d in sorted(os.listdir(base)):
            meta = json.load(open(os.path.join(base, d, "meta.json")))
            items.append(("seeded/" + d, os.path.join(base, d, "patch.diff"), meta["property"],
                          {"property": meta["property"], "needs": meta["needs"], "status": meta.get("status", "breaking")}))
        out = {}
        lock = threading.Lock()

        def one(it):
            key, patch, prop, info = it
            res = run_on_mutant(patch, [prop])
            v = res[prop]
            with lock:
                out[key] = dict(info, rc=v[0], violations=v[1])
                print(f"{key}: rc={v[0]} violations={v[1]}", flush=True)
                ordered = {k: out[k] for k, _, _, _ in items if k in out}
                json.dump(ordered, open(os.environ.get("SELFTEST_OUT") or os.path.join(core.VERIF, "selftest_results.json"), "w"),
                          indent=1)

        with ThreadPoolExecutor(max_workers=jobs) as ex:
            list(ex.map(one, items))
        return 0
    print(__doc__)
    return 2
