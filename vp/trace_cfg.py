"""
Trace validation of ArgumentParser.parse_args executions against specs/Trace_Cfg.tla.

The harness only REFORMATS: it picks the ParseArgs events out of an NDJSON trace, rewrites the logged
compiler definition into the table form CompilerCfg uses (field renaming only), appends the implicit
options to the argument vector ("as if appended to the command line"), pre-computes for every argument
the split / regular-expression matches that its rule would take (Python's str.split / re.findall - the
two primitives TLA+ lacks) and hands the batch to TLC.  Every judgement is made by the specification.
"""
import json
import os
import re
import tempfile

from . import core

EMPTY_AUX = {"parts": [], "matches": []}


def table_form(desc):
    rules = []
    for r in desc["parser"]:
        fmt = r.get("format", "$value") or "$value"
        rules.append({"flags": list(r["flags"]), "action": r["action"], "dest": r.get("dest", ""), "const": r.get("const", ""),
                      "prefix": fmt.replace("$value", ""), "hasdef": "default" in r, "default": list(r.get("default", []) or []),
                      "override": bool(r.get("override", False)), "sep": r.get("sep", ",") or ",",
                      "pattern": r.get("pattern", "") or ""})
    return {"alias": "", "options": [], "rules": rules,
            "modes": {n: {"defines": m["defines"], "ipaths": m["include_paths"], "ifiles": m["include_files"]}
                      for n, m in desc["modes"].items()},
            "passes": {n: {"defines": p["defines"], "ipaths": p["include_paths"], "ifiles": p["include_files"],
                           "modes": p["modes"]} for n, p in desc["passes"].items()}}


def expressible(desc):
    """Only the three custom actions and append_const with a string constant are part of the specification."""
    for r in desc["parser"]:
        if r.get("action") not in ("append_const", "store_split", "extend_match"):
            return False
        if r.get("action") == "append_const" and not isinstance(r.get("const"), str):
            return False
        if r.get("dest") not in ("defines", "include_paths", "include_files", "modes", "passes"):
            return False
    return True


def aux_for(rules, argv):
    out = []
    for i, t in enumerate(argv):
        name = t.split("=", 1)[0]
        rule = next((r for r in rules if name in r["flags"]), None)
        ent = {"att": dict(EMPTY_AUX), "sep": dict(EMPTY_AUX)}
        if rule is not None and rule["action"] != "append_const":
            def take(v):
                return {"parts": v.split(rule["sep"]) if rule["action"] == "store_split" else [],
                        "matches": [m if isinstance(m, str) else m[0] for m in re.findall(rule["pattern"], v)]
                        if rule["action"] == "extend_match" else []}
            if "=" in t:
                ent["att"] = take(t.split("=", 1)[1])
            if i + 1 < len(argv):
                ent["sep"] = take(argv[i + 1])
        out.append(ent)
    return out


def load_events(path, ident, limit=None):
    evs = []
    with open(path) as f:
        for line in f:
            line = line.strip()
            if not line or '"ParseArgs"' not in line:
                continue
            ev = json.loads(line)
            if ev.get("ev") != "ParseArgs" or not expressible(ev["compiler"]):
                continue
            tab = table_form(ev["compiler"])
            argv = list(ev["argv"]) + list(ev["compiler"]["options"])
            evs.append({"id": f"{ident}#{ev.get('seq', len(evs))}", "name": ev["name"], "compiler": tab, "argv": argv,
                        "aux": aux_for(tab["rules"], argv), "configs": ev["configs"]})
            if limit and len(evs) >= limit:
                break
    return evs


def validate(ctx, events, tag="cfg"):
    """Judge the events with Trace_Cfg.tla; every verdict other than ok / skipped is a failure of layer V."""
    if not events:
        return 0
    # identical (compiler, argv, configs) triples are judged once
    seen, uniq = set(), []
    for e in events:
        k = json.dumps([e["compiler"], e["argv"], e["configs"]], sort_keys=True)
        if k not in seen:
            seen.add(k)
            uniq.append(e)
    os.makedirs(core.OUT, exist_ok=True)
    fd, path = tempfile.mkstemp(prefix=f"{tag}-", suffix=".json", dir=core.OUT)
    with os.fdopen(fd, "w") as f:
        json.dump([{k: e[k] for k in ("compiler", "argv", "aux", "configs")} for e in uniq], f)
    try:
        r = core.tlc("Trace_Cfg", "Trace_Cfg.cfg", workers=1, timeout=1800, env={"TRACE_FILE": path}, tag=tag)
    finally:
        os.unlink(path)
    ctx.add_tlc(f"Trace_Cfg ({len(uniq)} distinct parse_args executions)", r)
    verdicts = {j["idx"]: j["verdict"] for j in r.json if isinstance(j, dict) and "verdict" in j}
    if len(verdicts) != len(uniq):
        raise core.MachineryError(f"Trace_Cfg judged {len(verdicts)} of {len(uniq)} events")
    n_ok = n_skip = 0
    for i, e in enumerate(uniq, start=1):
        v = verdicts[i]
        if v == "ok":
            n_ok += 1
        elif v.startswith("skipped"):
            n_skip += 1
        else:
            ctx.fail("V", ["trace.parse_args"], "parse-args-execution-rejected",
                     f"{e['id']}: {e['name']} {e['argv']}: {v}; returned {e['configs']}", {"event": e})
    ctx.cov["cfg_traces_accepted"] = ctx.cov.get("cfg_traces_accepted", 0) + n_ok
    ctx.cov["cfg_traces_skipped"] = ctx.cov.get("cfg_traces_skipped", 0) + n_skip
    ctx.cov["traces_validated_against_impl"] = ctx.cov.get("traces_validated_against_impl", 0) + n_ok
    return n_ok
