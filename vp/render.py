"""
Renderers: abstract PreprocCore items -> concrete source text (C or free-form Fortran),
with the map item index -> counted physical lines.
"""
import random


def cond_text(c, rnd, kw):
    """kw is 'if' or 'elif'.  Returns the directive text (without leading '#')."""
    t = c["t"]
    if t == "def":
        forms = [f"{kw} defined({c['m']})", f"{kw} defined {c['m']}", f"{kw} (defined({c['m']}))"]
        if kw == "if":
            forms += [f"ifdef {c['m']}", f"ifdef {c['m']}"]
        return rnd.choice(forms)
    if t == "ndef":
        forms = [f"{kw} !defined({c['m']})", f"{kw} ! defined {c['m']}"]
        if kw == "if":
            forms += [f"ifndef {c['m']}", f"ifndef {c['m']}"]
        return rnd.choice(forms)
    if t == "val":
        return rnd.choice([f"{kw} {c['m']}", f"{kw} ({c['m']})", f"{kw} {c['m']} != 0"])
    if t == "eq":
        return rnd.choice([f"{kw} {c['m']} == {c['n']}", f"{kw} ({c['m']}) == {c['n']}", f"{kw} {c['n']} == {c['m']}"])
    if t == "defand":
        return rnd.choice([f"{kw} defined({c['m']}) && {c['m2']}", f"{kw} defined {c['m']} && ({c['m2']})"])
    if t == "plus":
        return rnd.choice([f"{kw} {c['m']} + 0", f"{kw} ({c['m']} + 0) != 0", f"{kw} {c['m']} +0"])
    if t == "const":
        # the constant in any of its spellings (a zero need not be spelled 0)
        n = c["n"]
        sp = [str(n), str(n), hex(n), "0" + oct(n)[2:] if n else "00", f"{n}u", f"{n}L", f"({n})"]
        return f"{kw} {rnd.choice(sp)}"
    if t == "bad":
        return rnd.choice([f"{kw} (", f"{kw}", f"{kw} 1 +", f"{kw} 'ab' ==", f"{kw} 1/0"])
    raise ValueError(t)


def val_text(v):
    if v.startswith("q:"):
        return '"' + v[2:] + '"'
    if v.startswith("a:"):
        return "<" + v[2:] + ">"
    if v.startswith("m:"):
        return v[2:]
    return v


def render_c(items, seed=0, fortran=False, uid="x", plain=False, drop=(), xstr=False, dotted=False, fchain=False,
             spill=False):
    """
    Returns (text, lines_of_item) where lines_of_item[i] (0-based item index) is the list of
    physical line numbers (1-based) that the item contributes as counted lines.
    Decorations (blank lines, comment-only lines, trailing comments, continuation lines,
    indentation) vary with `seed` and must not change what is counted.
    With `xstr` (the command line then defines XSTR(x) as #x) a macro whose value is a quoted header name may be
    written `XSTR( name )`: a function-like macro with stringification in the operand of a computed include.
    With `fchain` (Fortran only) ALL code items are the lines of ONE continued statement, so that the
    directives stand between its continuation lines (the preprocessor runs first, whatever subset survives is a
    valid statement: the first and the last code item are unconditional).
    Code items whose index is in `drop` are rendered as nothing countable (no line, a blank line or
    a comment): directives then follow each other directly, and a file may begin / end with one.
    """
    rnd = random.Random(seed)
    out = []
    lines_of = []
    cmt_full = "! note" if fortran else rnd.choice(["// note", "/* note */"])

    def emit(*ls):
        start = len(out) + 1
        out.extend(ls)
        return list(range(start, start + len(ls)))

    def hashpfx():
        if fortran:
            return "#"
        return rnd.choice(["#", "#", "# ", "  #", "#\t"])

    def trail():
        if fortran:
            return ""
        return rnd.choice(["", "", "", " /* c */", " // c"])

    ncode = 0
    for i, it in enumerate(items):
        k = it["k"]
        # uncounted decoration before the item (plain: exactly one physical line per item)
        r = 1.0 if plain else rnd.random()
        if r < 0.12:
            out.append("")
        elif r < 0.22:
            out.append(cmt_full)
        if k == "code":
            ncode += 1
            if i in drop:
                if rnd.random() < 0.5:
                    out.append(rnd.choice(["", cmt_full]))
                lines_of.append([])
                continue
            if fortran and fchain:
                ncodes = sum(1 for x in items if x["k"] == "code")
                if ncode == 1:
                    ls = emit(f"{uid}1 = 1 + &" + rnd.choice(["", " ! c"]))
                elif ncode == ncodes:
                    ls = emit(rnd.choice(["  & ", "    "]) + f"{ncode}")
                else:
                    ls = emit(rnd.choice(["  & ", "    "]) + f"{ncode} + &" + rnd.choice(["", " ! c"]))
                lines_of.append(ls)
                continue
            if fortran:
                v = rnd.choice([f"{uid}{ncode} = {ncode}", f"call f({uid}{ncode})", f"{uid}{ncode} = 'a!b' // \"c&d\""])
                if not plain and rnd.random() < 0.25:
                    ls = emit(f"{uid}{ncode} = {ncode} + &", f"  & {ncode}")
                else:
                    ls = emit(v + rnd.choice(["", "", " ! c"]))
            else:
                if not plain and rnd.random() < 0.2:
                    ls = emit(f"int {uid}{ncode}", f"  = {ncode};")
                else:
                    ls = emit(rnd.choice([f"int {uid}{ncode} = {ncode};", f"char *{uid}{ncode} = \"/* no */ // no\";",
                                          f"int {uid}{ncode}; /* c */", f"  f({uid}{ncode}); // c"]))
            lines_of.append(ls)
            continue
        if k in ("if", "elif"):
            txt = cond_text(it["c"], rnd, k)
        elif k == "else":
            txt = "else"
        elif k == "endif":
            txt = "endif"
        elif k == "define":
            v = val_text(it["v"])
            if xstr and it["v"].startswith("q:") and rnd.random() < 0.5:
                v = rnd.choice(["XSTR({})", "XSTR( {} )", "XSTR(  {})"]).format(it["v"][2:])
            txt = f"define {it['m']} {v}" if v != "" else f"define {it['m']}"
        elif k == "undef":
            txt = f"undef {it['m']}"
        elif k == "include":
            nm = it["name"]
            if dotted and rnd.random() < 0.35:
                nm = "./" + nm                 # the same file, named with a dot component
            txt = f'include "{nm}"' if it["form"] == "q" else f"include <{nm}>"
        elif k == "includem":
            txt = f"include {it['m']}"
        elif k == "once":
            txt = "pragma once"
        elif k == "unknown":
            txt = it.get("text", "frobnicate 1")
        else:
            raise ValueError(k)
        bad = k in ("if", "elif") and it["c"]["t"] == "bad"
        if (not bad) and (not fortran) and (not plain) and " " in txt and rnd.random() < 0.15:
            a, b = txt.split(" ", 1)
            ls = emit(hashpfx() + a + " \\", "   " + b + trail())
        elif spill and (not bad) and (not fortran) and rnd.random() < 0.4:
            # a trailing block comment that ends on the NEXT physical line: that line belongs to the directive's extent
            # but holds nothing, so it is not counted (and is neither used nor unused in the coverage export)
            ls = emit(hashpfx() + txt + " /* spilled", "   comment */")[:1]
        else:
            ls = emit(hashpfx() + txt + ("" if bad else trail()))
        lines_of.append(ls)
    # a closing comment line: never counted in the file's own language (it would be under another lexer)
    out.append("! end of file" if fortran else "// end of file")
    return "\n".join(out) + "\n", lines_of


def define_arg(m, v, rnd):
    """-D spelling for macro m with abstract value v (v != 'U')."""
    if v == "":
        return f"{m}="
    if v == "1":
        return rnd.choice([m, f"{m}=1"])
    return f"{m}={val_text(v)}"
