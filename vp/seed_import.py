"""
Confirm a sub-agent's seeded change against /repo's current HEAD and import it into /verif/seeded:

  /venv/bin/python -m vp.seed_import <prop> <n> <srcdir> "<needs>"

Steps (all in a scratch clone outside /repo and /verif, removed afterwards):
  demo on clean tree -> must exit 0; apply patch (3-way) ; test suite -> 145 pass ;
  demo with patch -> must exit non-zero.  The stored patch.diff is regenerated against HEAD.
"""
import json
import os
import shutil
import subprocess
import sys
import tempfile

VERIF = os.path.dirname(os.path.dirname(os.path.abspath(__file__)))


def sh(cmd, cwd=None, env=None, timeout=900):
    return subprocess.run(cmd, cwd=cwd, env=env, capture_output=True, text=True, timeout=timeout)


def main():
    prop, n, src, needs = sys.argv[1], sys.argv[2], sys.argv[3], sys.argv[4]
    tmp = tempfile.mkdtemp(prefix="seed-import-")
    dst = os.path.join(tmp, "repo")
    ran = []
    try:
        sh(["git", "clone", "-q", "/repo", dst])
        env = dict(os.environ, PYTHONPATH=dst)
        env.pop("CBI_VERIF", None)
        demo = os.path.join(src, "demo.py")
        r0 = sh(["/venv/bin/python", demo], cwd=tmp, env=env)
        ran.append(f"demo on clean HEAD: exit {r0.returncode}")
        a = sh(["git", "-C", dst, "apply", "-3", os.path.join(src, "patch.diff")])
        if a.returncode != 0:
            sh(["git", "-C", dst, "reset", "-q", "--hard"])
            a = sh(["patch", "-p1", "--fuzz=3", "-d", dst, "-i", os.path.join(src, "patch.diff")])
        ran.append(f"apply: rc {a.returncode}")
        if a.returncode != 0:
            print("APPLY FAILED", a.stdout, a.stderr)
            return 1
        sh(["git", "-C", dst, "reset", "-q"])
        diff = sh(["git", "-C", dst, "diff", "--", "codebasin"]).stdout
        t = sh(["/venv/bin/python", "-m", "pytest", "-q", "-p", "no:cacheprovider", "-x"], cwd=dst, env=env)
        tail = t.stdout.strip().splitlines()[-1] if t.stdout.strip() else ""
        ran.append(f"pytest with patch: {tail}")
        r1 = sh(["/venv/bin/python", demo], cwd=tmp, env=env)
        ran.append(f"demo with patch: exit {r1.returncode}")
        ok = r0.returncode == 0 and r1.returncode != 0 and "145 passed" in tail
        print("\n".join(ran))
        if not ok:
            print("NOT CONFIRMED")
            print(r0.stdout[-800:], r0.stderr[-800:])
            return 1
        out = os.path.join(VERIF, "seeded", f"{prop}_{n}")
        os.makedirs(out, exist_ok=True)
        open(os.path.join(out, "patch.diff"), "w").write(diff)
        shutil.copy(demo, os.path.join(out, "demo.py"))
        if os.path.exists(os.path.join(src, "notes.md")):
            shutil.copy(os.path.join(src, "notes.md"), os.path.join(out, "notes.md"))
        head = sh(["git", "-C", "/repo", "rev-parse", "--short", "HEAD"]).stdout.strip()
        json.dump({"property": prop, "needs": needs, "confirmed_against": head, "ran": ran,
                   "source": "independent sub-agent given only the property text"},
                  open(os.path.join(out, "meta.json"), "w"), indent=1)
        print("IMPORTED", out)
        return 0
    finally:
        shutil.rmtree(tmp, ignore_errors=True)


if __name__ == "__main__":
    sys.exit(main())
