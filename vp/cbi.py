"""
Drivers for the code under test (imported from $CBI_REPO) and projections of its
results onto the abstract observables of the specifications.
"""
import contextlib
import io
import logging
import os
import traceback
import warnings

warnings.filterwarnings("ignore", category=DeprecationWarning)


def _mods():
    from codebasin import CodeBase, finder, preprocessor  # noqa
    return CodeBase, finder, preprocessor


class LogCapture(logging.Handler):
    def __init__(self):
        super().__init__(level=logging.DEBUG)
        self.records = []

    def emit(self, record):
        self.records.append((record.levelname, record.getMessage()))


@contextlib.contextmanager
def captured_logs():
    lg = logging.getLogger("codebasin")
    h = LogCapture()
    old_level = lg.level
    old_prop = lg.propagate
    lg.addHandler(h)
    lg.setLevel(logging.DEBUG)
    lg.propagate = False
    try:
        yield h
    finally:
        lg.removeHandler(h)
        lg.setLevel(old_level)
        lg.propagate = old_prop


def line_attr(state, path):
    """physical line -> frozenset(platform names) for every counted line of `path`."""
    _, _, pp = _mods()
    tree = state.get_tree(path)
    amap = state.get_map(path)
    if tree is None:
        return None
    out = {}
    dup = []
    for node in tree.walk():
        if isinstance(node, pp.CodeNode):
            ps = frozenset(amap[node])
            for ln in node.lines:
                if ln in out:
                    dup.append(ln)
                out[ln] = ps
    if dup:
        out["__dup__"] = dup
    return out


def run_find(rootdir, configuration, excludes=None, codebase_dirs=None):
    """
    finder.find on a materialised scenario.  Returns (state, codebase, logs, error).
    error is None or a (type name, message, traceback) triple.
    """
    CodeBase, finder, _ = _mods()
    with captured_logs() as h:
        try:
            dirs = codebase_dirs or [rootdir]
            cb = CodeBase(*dirs, exclude_patterns=list(excludes or []))
            st = finder.find(rootdir, cb, configuration, summarize_only=True, show_progress=False)
            return st, cb, h.records, None
        except BaseException as e:  # noqa
            if isinstance(e, (KeyboardInterrupt, SystemExit)):
                raise
            return None, None, h.records, (type(e).__name__, str(e), traceback.format_exc(limit=6))


def entry(path, defines=(), include_paths=(), include_files=()):
    return {"file": path, "defines": list(defines), "include_paths": list(include_paths),
            "include_files": list(include_files)}


def write_tree(root, files):
    """files: {relative path: text}"""
    for rel, text in files.items():
        p = os.path.join(root, rel)
        os.makedirs(os.path.dirname(p), exist_ok=True)
        with open(p, "w") as f:
            f.write(text)


@contextlib.contextmanager
def tracing(path):
    """Enable the CBI_VERIF hooks for the duration of the block, writing NDJSON to `path`."""
    from codebasin._detail import verif
    if not path:
        old = verif.ENABLED
        verif.ENABLED = False
        try:
            yield
        finally:
            verif.ENABLED = old
        return
    old = verif.ENABLED
    old_env = os.environ.get("CBI_VERIF_TRACE")
    os.environ["CBI_VERIF_TRACE"] = path
    verif.ENABLED = True
    try:
        yield
    finally:
        verif.ENABLED = old
        if old_env is None:
            os.environ.pop("CBI_VERIF_TRACE", None)
        else:
            os.environ["CBI_VERIF_TRACE"] = old_env


def run_find_traced(rootdir, configuration, trace_dir, ident, excludes=None):
    """run_find with the hooks on; returns (state, codebase, logs, error, traces) where traces are
    ready for Trace_Preproc (loaded while the files still exist)"""
    from . import trace_preproc
    tf = os.path.join(trace_dir, f"trace_{abs(hash(ident)) % 10**9}.ndjson")
    with tracing(tf):
        st, cb, logs, err = run_find(rootdir, configuration, excludes=excludes)
    traces = []
    if os.path.exists(tf):
        try:
            traces = trace_preproc.load_trace_file(tf, ident)
        finally:
            os.unlink(tf)
    return st, cb, logs, err, traces
