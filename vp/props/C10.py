"""
C10 - excluding files removes their lines from the counts and changes nothing else.

M  GenScen invariant ExclusionAdditive: for every subset X of the code-base files of a generated
   scenario, the platform-set table of the remaining lines is the full table minus the table of
   X's lines, and (structurally) the reference preprocessing machine never consults membership:
   the attribution of the remaining files is the one computed without any exclusion.
G  generated scenarios whose headers define macros other files test (incl. a header outside the
   root): for exclude lists matching single files, directories, all headers and random subsets,
   the real pipeline is run with the exclusion: per-line attribution of every remaining file and
   get_setmap must equal the reference's no-exclusion expectation restricted to the remaining
   files; `-x P` and `[codebase] exclude = [P]` are compared through codebasin / cbi-tree / cbi-cov.
"""
import json
import os
import random
import shutil

from .. import cbi, core, runner, scen, trace_preproc
from . import C04, C06


def rel(m, fid):
    return os.path.relpath(m.paths[fid], m.root)


def inside(m, fid):
    return m.paths[fid].startswith(os.path.realpath(m.root) + os.sep)


def exclude_lists(m, sc, rnd):
    """[(patterns, set of excluded file ids)]"""
    members = [f for f in m.paths if inside(m, f)]
    out = []
    for f in members:
        out.append((["/" + rel(m, f)], {f}))
    dirs = {}
    for f in members:
        dirs.setdefault(os.path.dirname(rel(m, f)).split(os.sep)[0], set()).add(f)
    for d, fs in dirs.items():
        out.append(([d + "/"], set(fs)))
    # everything inside a directory, then one file re-included (only the directory's CONTENTS match the
    # pattern, not the directory itself, so the negation takes effect - validated against git in C09)
    for d, fs in dirs.items():
        direct = sorted(f for f in fs if os.path.dirname(rel(m, f)) == d)
        if len(direct) == len(fs) and len(fs) >= 1:
            keep = rnd.choice(direct)
            out.append(([d + rnd.choice(["/**", "/*"]), "!/" + rel(m, keep)], set(fs) - {keep}))
    # patterns are case-sensitive: the upper-cased spelling of a file's path matches nothing
    if members:
        f0 = rnd.choice(sorted(members))
        out.append((["/" + rel(m, f0).upper(), "*.H"], set()))
        # a leading "/" anchors the pattern at the root (no file of that name lies directly there), and "./" is
        # not a way to spell "here" in a pattern: both match nothing - validated with git check-ignore
        out.append((["/" + os.path.basename(rel(m, f0)), "./" + rel(m, f0)], set()))
    hs = {f for f in members if f.endswith(".h")}
    if hs:
        out.append((["*.h"], hs))
        out.append((["*.h", "!/" + rel(m, sorted(hs)[0])], hs - {sorted(hs)[0]}))
    for _ in range(2):
        sub = {f for f in members if rnd.random() < 0.4}
        if sub:
            out.append((["/" + rel(m, f) for f in sorted(sub)], sub))
    return out


def expected_setmap(m, exp, plats, excluded):
    sm = {}
    for fid in m.paths:
        if not inside(m, fid) or fid in excluded:
            continue
        for ln in m.all_lines(fid):
            ps = frozenset(p for p in plats if ln in exp[p][fid])
            sm[ps] = sm.get(ps, 0) + 1
    return sm


def replay_chunk(args):
    scens, seed, workdir, cli_every = args
    trace_every = 5
    fails = []
    stats = {"evals": 0, "nontrivial": 0, "skipped": 0}
    for si, sc in enumerate(scens):
        core.tick(sc, 900)
        tags = scen.features(sc) | {"c10"}
        if not scen.well_formed(sc) or any(r["warns"] for r in sc["res"]) or "argv.forced_name_beside_main" in tags:
            stats["skipped"] += 1
            continue
        base = scen.new_base(workdir)
        try:
            rnd = random.Random(f"{seed}-{si}")
            m = scen.Mat(sc, base, seed=rnd.random())
            byp = scen.ents_by_plat(sc)
            plats = sorted(byp)
            exp = scen.expected_by_plat(m, sc)
            conf = m.load_configuration(byp, rnd)
            # a symbolic link inside the root to a member file, and one to a file outside: whatever is
            # excluded, a link never adds lines (its target is counted, or is not a member)
            mem = sorted(f for f in m.paths if inside(m, f))
            outs = sorted(f for f in m.paths if not inside(m, f))
            if mem:
                os.symlink(m.paths[rnd.choice(mem)], os.path.join(m.root, "zz_link_in.h"))
            if outs:
                os.symlink(m.paths[outs[0]], os.path.join(m.root, "src", "zz_link_out.h"))
            for xi, (pats, excluded) in enumerate(exclude_lists(m, sc, rnd)):
                stats["evals"] += 1
                # does the excluded set provide macros/includes to others?  (non-trivial case)
                if any(it["k"] in ("define", "undef", "include") for f in excluded for it in sc["files"][f]["items"]):
                    stats["nontrivial"] += 1
                if trace_every and si % trace_every == 0 and xi == 0:
                    st, cb, logs, err, trs = cbi.run_find_traced(m.root, conf, base, f"c10:{si}", excludes=pats)
                    stats.setdefault("traces", []).extend(trs)
                else:
                    st, cb, logs, err = cbi.run_find(m.root, conf, excludes=pats)
                if err is not None:
                    fails.append(dict(layer="G", tags=sorted(tags | {"exception"}), symptom=f"exception:{err[0]}",
                                      detail=f"exclude={pats}: {err[1]}", case=sc))
                    break
                d = scen.compare(m, sc, st, exp, label=f"exclude={pats} ")
                sm = {k: v for k, v in st.get_setmap(cb).items() if v}
                want = {k: v for k, v in expected_setmap(m, exp, plats, excluded).items() if v}
                if sm != want:
                    d.append(f"exclude={pats}: get_setmap { {tuple(sorted(k)): v for k, v in sm.items()} } != "
                             f"{ {tuple(sorted(k)): v for k, v in want.items()} }")
                listed = {os.path.realpath(p) for p in cb}
                want_listed = {m.paths[f] for f in m.paths if inside(m, f) and f not in excluded}
                if listed != want_listed:
                    d.append(f"exclude={pats}: code base lists {sorted(os.path.relpath(p, m.root) for p in listed)}")
                if d:
                    fails.append(dict(layer="G", tags=sorted(tags), symptom="exclusion-changes-attribution",
                                      detail="; ".join(d[:6]) + "\nents=" + repr(sc["ents"]), case=sc))
                    break
            # CLI: -x P  vs  [codebase] exclude = [P]
            if cli_every and si % cli_every == 0:
                lists = exclude_lists(m, sc, rnd)
                # two lists per scenario: the random subset of files, and one of the other kinds in turn
                import zlib
                kinds = lists[:-1] or lists
                picks = [lists[-1], kinds[zlib.crc32(repr(sc["ents"]).encode()) % len(kinds)]]
                for pats, excluded in picks:
                    dbs = {}
                    for p in plats:
                        dbp = os.path.join(base, f"db_{p}.json")
                        with open(dbp, "w") as f:
                            json.dump(m.database(byp[p], rnd), f)
                        dbs[p] = dbp
                    plain = os.path.join(base, "plain.toml")
                    withx = os.path.join(base, "withx.toml")
                    body = "".join(f'[platform.{p}]\ncommands = "{dbs[p]}"\n\n' for p in plats)
                    open(plain, "w").write(body)
                    open(withx, "w").write("[codebase]\nexclude = " + json.dumps(pats) + "\n\n" + body)
                    xargs = [a for p in pats for a in ("-x", p)]
                    want = {k: v for k, v in expected_setmap(m, exp, plats, excluded).items() if v}
                    outs = []
                    for argv in (["-R", "summary"] + xargs + [plain], ["-R", "summary", withx]):
                        stats["evals"] += 1
                        rc, out, err = C06.cli("codebasin", argv, m.root)
                        rows, tot = C06.parse_summary(out)
                        got = {k: v[0] for k, v in rows.items() if v[0]}
                        outs.append(got)
                        if rc != 0 or got != want:
                            fails.append(dict(layer="G", tags=sorted(tags | {"cli"}), symptom="cli-exclusion-differs",
                                              detail=f"codebasin {' '.join(argv[:-1])}: rc={rc} rows={ {tuple(sorted(k)): v for k, v in got.items()} } "
                                                     f"expected { {tuple(sorted(k)): v for k, v in want.items()} }", case=sc))
                            break
                    # -x together with [codebase] exclude: the union applies, in all three front ends
                    if len(pats) >= 2 and not any(p.startswith("!") for p in pats):
                        half = os.path.join(base, "half.toml")
                        open(half, "w").write("[codebase]\nexclude = " + json.dumps(pats[:1]) + "\n\n" + body)
                        xrest = [a for p in pats[1:] for a in ("-x", p)]
                        stats["evals"] += 2
                        rc, out, err = C06.cli("codebasin", ["-R", "summary"] + xrest + [half], m.root)
                        rows, tot = C06.parse_summary(out)
                        got = {k: v[0] for k, v in rows.items() if v[0]}
                        if rc != 0 or got != want:
                            fails.append(dict(layer="G", tags=sorted(tags | {"cli"}), symptom="cli-exclusion-differs",
                                              detail=f"codebasin -x {pats[1:]} + toml exclude {pats[:1]}: rows { {tuple(sorted(k)): v for k, v in got.items()} } "
                                                     f"expected { {tuple(sorted(k)): v for k, v in want.items()} }", case=sc))
                        r3 = C06.cli("codebasin.tree", xrest + [half], m.root)
                        r4 = C06.cli("codebasin.tree", [withx], m.root)
                        if r3[0] != 0 or r3[1] != r4[1]:
                            fails.append(dict(layer="G", tags=sorted(tags | {"cli"}), symptom="cli-exclusion-differs",
                                              detail=f"cbi-tree -x {pats[1:]} + toml exclude {pats[:1]} differs from toml exclude {pats}:\n{r3[1][-300:]}\n---\n{r4[1][-300:]}",
                                              case=sc))
                    # cbi-tree -x vs toml: identical outputs
                    stats["evals"] += 1
                    r1 = C06.cli("codebasin.tree", xargs + [plain], m.root)
                    r2 = C06.cli("codebasin.tree", [withx], m.root)
                    if r1[0] != 0 or r2[0] != 0 or r1[1] != r2[1]:
                        fails.append(dict(layer="G", tags=sorted(tags | {"cli"}), symptom="cli-exclusion-differs",
                                          detail=f"cbi-tree -x {pats} and [codebase] exclude differ:\n{r1[1][-400:]}\n---\n{r2[1][-400:]}", case=sc))
                    else:
                        legend, rows = C06.parse_tree(r1[1])
                        for f in excluded:
                            if tuple(rel(m, f).split(os.sep)) in rows:
                                fails.append(dict(layer="G", tags=sorted(tags | {"cli"}), symptom="cli-exclusion-differs",
                                                  detail=f"cbi-tree -x {pats} still lists {rel(m, f)}", case=sc))
                                break
                    # cbi-cov -x: excluded files are not listed
                    p0 = plats[0]
                    covp = os.path.join(base, "cov.json")
                    stats["evals"] += 1
                    rc, out, err = C06.cli("codebasin.coverage", ["compute", "-S", m.root, "-o", covp] + xargs + [dbs[p0]], m.root)
                    if rc != 0:
                        fails.append(dict(layer="G", tags=sorted(tags | {"cli"}), symptom="cli-exclusion-differs",
                                          detail=f"cbi-cov -x {pats} exited {rc}: {err[-300:]}", case=sc))
                    else:
                        cov = {e["file"]: e for e in json.load(open(covp))}
                        want_files = {rel(m, f) for f in m.paths if inside(m, f) and f not in excluded}
                        # symbolic links are listed as files iff their target is a (non-excluded) member
                        for ln in ("zz_link_in.h", os.path.join("src", "zz_link_out.h")):
                            lp = os.path.join(m.root, ln)
                            if os.path.islink(lp):
                                tgt = os.path.realpath(lp)
                                if tgt in {m.paths[f] for f in m.paths if inside(m, f) and f not in excluded}:
                                    want_files.add(ln)
                        bad = set(cov) != want_files
                        for f in m.paths:
                            if inside(m, f) and f not in excluded and rel(m, f) in cov:
                                if set(cov[rel(m, f)]["used_lines"]) != exp[p0][f]:
                                    bad = True
                        if bad:
                            fails.append(dict(layer="G", tags=sorted(tags | {"cli"}), symptom="cli-exclusion-differs",
                                              detail=f"cbi-cov -x {pats}: files {sorted(cov)} expected {sorted(want_files)} (or used lines differ)",
                                              case=sc))
        finally:
            shutil.rmtree(base, ignore_errors=True)
    return fails, stats


def _jobs(js):
    return [replay_chunk(j) for j in js]


def run(ctx):
    q = ctx.quick
    cfg = C04.CFG
    p = os.path.join(core.OUT, f"GenScen_c10M_{os.getpid()}.cfg")
    os.makedirs(core.OUT, exist_ok=True)
    open(p, "w").write(cfg.format(profile="c06", shard=1, nshards=1) + "INVARIANT ExclusionAdditive\n")
    try:
        r = core.tlc("GenScen", p, workers=runner.NCPU, timeout=900, tag="C10M", heap="4g",
                     simulate=f"num={6 if q else 60}", depth=30, seed=ctx.seed + 4)
    finally:
        os.unlink(p)
    ctx.add_tlc("GenScen ExclusionAdditive (every subset of files excluded, simulated scenarios)", r)
    if r.violation:
        ctx.model_violation("GenScen_c10", r)
    cases = runner.sharded_tlc(ctx, "GenScen", cfg.format(profile="sim", shard=0, nshards=1), 16, "GenScen_sim",
                               timeout=900, simulate=f"num={20 if q else 300}", depth=40, seed=ctx.seed + 31)
    cases += runner.sharded_tlc(ctx, "GenScen", cfg.format(profile="c10", shard=0, nshards=1), 16, "GenScen_c10",
                                timeout=900, simulate=f"num={40 if q else 600}", depth=30, seed=ctx.seed + 33)
    # exhaustive small profile c06s: ExclusionAdditive on EVERY scenario (M), and every scenario through the harness (G)
    p = os.path.join(core.OUT, f"GenScen_c10sM_{os.getpid()}.cfg")
    open(p, "w").write(cfg.format(profile="c06s", shard=1, nshards=1) + "INVARIANT ExclusionAdditive\nINVARIANT RefTotal\n")
    try:
        r = core.tlc("GenScen", p, workers=runner.NCPU, timeout=900, tag="C10sM", heap="4g")
    finally:
        os.unlink(p)
    ctx.add_tlc("GenScen c06s ExclusionAdditive (every subset of files excluded, every scenario)", r)
    if r.violation:
        ctx.model_violation("GenScen_c06s", r)
    small = C04.dedup(runner.sharded_tlc(ctx, "GenScen", cfg.format(profile="c06s", shard="@SHARD@", nshards="@NSHARDS@"), 8,
                                         "GenScen_c06s", timeout=900))
    ctx.cov["scenarios_exhaustive_c06s"] = len(small)
    cases = C04.dedup(small + cases)
    if not cases:
        raise core.MachineryError("no scenarios")
    ctx.cov["rule"] = (
        "every scenario of the small profile c06s (h.h beside the mains and in the -I directory, body depending on X, two "
        "mains, two commands over one or two platforms) and "
        "TLC-simulated GenScen scenarios (7 header slots incl. a directory outside the root, headers that define/undefine/"
        "test macros and include each other, 2 mains, 3 TUs, 2 platforms) x exclude lists matching every single code-base "
        "file, every top-level directory, `*.h`, `*.h` with one negated re-inclusion and random subsets; the pipeline is run "
        "with each list and per-line attribution of all remaining files, get_setmap and the enumerated code base are "
        "compared with the reference's no-exclusion expectation restricted to the remaining files; sampled scenarios also "
        "through codebasin/cbi-tree/cbi-cov with -x versus [codebase] exclude. non-trivial = an excluded file defines/"
        "undefines a macro or includes another file")
    ctx.cov["scenarios"] = len(cases)
    ctx.sample({"files": {k: v["items"] for k, v in cases[0]["files"].items()}, "ents": cases[0]["ents"]})
    work = ctx.scratch()
    loaded = []
    jobs = [(c, ctx.seed, work, 8 if q else 4) for c in runner.chunks(cases, runner.NCPU * 2)]
    for lst in runner.pmap(_jobs, jobs, chunk=1):
        for fails, stats in lst:
            ctx.cov["evaluations"] += stats["evals"]
            ctx.cov["distinct_nontrivial"] += stats["nontrivial"]
            ctx.cov["skipped"] = ctx.cov.get("skipped", 0) + stats["skipped"]
            loaded.extend(stats.get("traces", []))
            for f in fails:
                ctx.fail(f["layer"], f["tags"], f["symptom"], f["detail"], f["case"])
    trace_preproc.validate(ctx, [], tag="C10", loaded=loaded)


def replay(ctx, path):
    c = json.load(open(os.path.join(path, "case.json")))
    print(json.dumps(c, indent=1)[:4000])
    if c.get("case"):
        fails, _ = replay_chunk(([c["case"]], ctx.seed, ctx.scratch(), 1))
        for f in fails:
            print("REPRODUCED:", f["symptom"], f["detail"][:2000])
            ctx.fail(f["layer"], f["tags"], f["symptom"], f["detail"], f["case"])
    ctx.cov["evaluations"] = 1
