"""
C14 - results are deterministic and independent of enumeration order.

M  MC_Schedules.tla: the pipeline with every runtime-chosen order explicit (platform order, file
   enumeration order, extract_platforms order, label assignment); invariant Confluent for EVERY
   schedule.  (LabelOrder = "iteration" is the self-test's broken variant.)
G  the schedules TLC explored are replayed into the real tool: platform tables written in the
   schedule's platform order, directory enumeration forced into the schedule's file order by an
   os.scandir shim (sitecustomize), PYTHONHASHSEED taken from the schedule, each in a fresh
   interpreter; `codebasin -R summary`, cbi-tree, cbi-cov on GenScen scenarios and
   `codebasin -R duplicates` on Duplicates.tla code bases.  Every run's parsed output is compared,
   as a mathematical object (table as mapping, tree rows with labels resolved through the printed
   legend, coverage as per-file line sets, duplicate groups as a set of sets), with the
   specification's expectation - hence with every other run.
"""
import itertools
import json
import os
import random
import re
import shutil
import subprocess
import sys
import tempfile

from .. import core, runner, scen
from . import C04, C06, C16

SHIM = r'''
import json, os
_order = json.loads(os.environ.get("CBI_VERIF_SCANORDER", "null"))
if _order is not None:
    _orig = os.scandir
    class _It:
        def __init__(self, entries): self._e = entries; self._i = 0
        def __iter__(self): return self
        def __next__(self):
            if self._i >= len(self._e): raise StopIteration
            self._i += 1; return self._e[self._i - 1]
        def close(self): pass
        def __enter__(self): return self
        def __exit__(self, *a): return False
    def _key(e):
        import zlib
        return (zlib.crc32((e.name + str(_order)).encode()) , e.name)
    def scandir(path="."):
        with _orig(path) as it:
            ents = list(it)
        ents.sort(key=_key, reverse=bool(_order % 2))
        return _It(ents)
    os.scandir = scandir
'''


def run_cli(mod, args, cwd, shimdir, hashseed, scanorder):
    env = dict(os.environ, PYTHONPATH=shimdir + os.pathsep + core.repo_path(), PYTHONHASHSEED=str(hashseed),
               CBI_VERIF_SCANORDER=json.dumps(scanorder))
    env.pop("CBI_VERIF", None)
    r = core.run_impl([sys.executable, "-m", mod] + args, 180, cwd=cwd, env=env, capture_output=True, text=True)
    return r.returncode, r.stdout, r.stderr


def sched_params(s, plats):
    rank = {"alpha": 0, "beta": 1, "gamma": 2}
    perm = [rank[x] for x in s["porder"]]
    order = [plats[i % len(plats)] for i in perm if i < len(plats)]
    order += [p for p in plats if p not in order]
    seen = []
    for p in order:
        if p not in seen:
            seen.append(p)
    fo = {"f1": 0, "f2": 1, "f3": 2}
    scanorder = sum(fo[x] * (3 ** i) for i, x in enumerate(s["forder"]))
    hs = sum(rank[x] * (3 ** i) for i, x in enumerate(s["eorder"])) % 50
    return seen, scanorder, hs


def scen_chunk(args):
    pairs, seed, workdir = args
    fails = []
    stats = {"evals": 0, "nontrivial": 0, "skipped": 0}
    shimdir = tempfile.mkdtemp(prefix="shim-", dir=workdir)
    open(os.path.join(shimdir, "sitecustomize.py"), "w").write(SHIM)
    try:
        for si, (sc, scheds) in enumerate(pairs):
            core.tick(sc, 900)
            tags = scen.features(sc) | {"c14"}
            if not scen.well_formed(sc) or any(r["warns"] for r in sc["res"]) or "argv.forced_name_beside_main" in tags:
                stats["skipped"] += 1
                continue
            base = scen.new_base(workdir)
            try:
                rnd = random.Random(f"{seed}-{si}")
                # every other scenario has its second main written in Fortran (.F90): the headers it shares with the
                # C main are then reached from includers of different language families
                m = scen.Mat(sc, base, seed=0, plain=True, ext_of=({"src/m2.c": ".F90"} if si % 2 else None))
                # a symbolic link whose extension belongs to another language family than its target's
                os.makedirs(os.path.join(m.root, "inc"), exist_ok=True)
                os.symlink(os.path.join("..", "src", "m1.c"), os.path.join(m.root, "inc", "alias.F90"))
                byp = scen.ents_by_plat(sc)
                plats = sorted(byp)
                dbs = {}
                for p in plats:
                    dbp = os.path.join(base, f"db_{p}.json")
                    with open(dbp, "w") as f:
                        json.dump(m.database(byp[p], rnd), f)
                    dbs[p] = dbp
                rep = sc["rep"]
                if si % 2:
                    # the specification calls the file src/m2.c; on disk it is src/m2.F90
                    rep = json.loads(json.dumps(rep))
                    for row in rep["tree"]:
                        if row["path"] == ["src", "m2.c"]:
                            row["path"] = ["src", "m2.F90"]
                if len(plats) > 1:
                    stats["nontrivial"] += 1
                exp = scen.expected_by_plat(m, sc)
                for s in scheds:
                    porder, scanorder, hs = sched_params(s, plats)
                    toml = os.path.join(base, f"a_{scanorder}_{hs}.toml")
                    open(toml, "w").write("".join(f'[platform.{p}]\ncommands = "{dbs[p]}"\n\n' for p in porder))
                    what = f"platform order {porder}, scandir order #{scanorder}, PYTHONHASHSEED={hs}"
                    errs = []
                    stats["evals"] += 1
                    rc, out, err = run_cli("codebasin", ["-R", "summary", toml], m.root, shimdir, hs, scanorder)
                    if rc != 0:
                        errs.append(f"codebasin exited {rc}: {out[-200:]}{err[-200:]}")
                    else:
                        rows, tot = C06.parse_summary(out)
                        want = {frozenset(e["k"]): e["n"] for e in rep["setmap"] if e["n"]}
                        if {k: v[0] for k, v in rows.items() if v[0]} != want or tot != rep["total"]:
                            errs.append(f"summary table { {tuple(sorted(k)): v[0] for k, v in rows.items()} } total {tot} != "
                                        f"{ {tuple(sorted(k)): v for k, v in want.items()} } / {rep['total']}")
                        # printed metrics must be identical strings across schedules -> compare with first
                        mets = tuple(re.findall(r"^(Code Divergence|Coverage \(%\)|Avg\. Coverage \(%\)): (\S+)$", out, re.M))
                        key = ("metrics", si)
                        if key not in stats:
                            stats[key] = mets
                        elif stats[key] != mets:
                            errs.append(f"metrics differ across schedules: {mets} vs {stats[key]}")
                    if len(plats) >= 2:
                        # the distance matrix of the clustering report: rows/columns by name, values by Metrics.Distance
                        stats["evals"] += 1
                        rc, out, err = run_cli("codebasin", ["-R", "clustering", toml], m.root, shimdir, hs, scanorder)
                        if rc != 0:
                            errs.append(f"codebasin -R clustering exited {rc}: {out[-200:]}{err[-200:]}")
                        else:
                            rows = {}
                            cols = None
                            for line in out.splitlines():
                                cells = [c.strip() for c in re.split(r"[│|]", line) if c.strip()]
                                if cols is None and len(cells) == len(plats) and sorted(cells) == plats:
                                    cols = cells          # header row: the matrix is read through its labels,
                                    continue              # the order of rows and columns is not part of the result
                                if cells and cells[0] in plats and len(cells) == len(plats) + 1:
                                    rows[cells[0]] = cells[1:]
                            okm = sorted(rows) == plats and cols is not None
                            for a in plats:
                                for j, b in enumerate(cols or []):
                                    if not okm:
                                        break
                                    num, den = rep["dist"][a][b]
                                    if den == 0:
                                        okm = rows[a][j].lower() == "nan"
                                    else:
                                        try:
                                            okm = abs(float(rows[a][j]) - num / den) <= 0.005 + 1e-9
                                        except ValueError:
                                            okm = False
                            if not okm:
                                errs.append(f"distance matrix {rows} != Metrics.Distance {rep['dist']}")
                    stats["evals"] += 1
                    rc, out, err = run_cli("codebasin.tree", [toml], m.root, shimdir, hs, scanorder)
                    if rc != 0:
                        errs.append(f"cbi-tree exited {rc}: {err[-200:]}")
                    else:
                        errs += C06.check_tree(out, rep["tree"], plats, "tree", links=[("inc", "alias.F90")])
                    p0 = plats[0]
                    covp = os.path.join(base, f"cov_{scanorder}_{hs}.json")
                    stats["evals"] += 1
                    rc, out, err = run_cli("codebasin.coverage", ["compute", "-S", m.root, "-o", covp, dbs[p0]], m.root,
                                           shimdir, hs, scanorder)
                    if rc != 0:
                        errs.append(f"cbi-cov exited {rc}: {err[-200:]}")
                    else:
                        cov = {e["file"]: e for e in json.load(open(covp))}
                        for fid, path in m.paths.items():
                            if path.startswith(os.path.realpath(m.root) + os.sep):
                                rel = os.path.relpath(path, m.root)
                                if rel not in cov or set(cov[rel]["used_lines"]) != exp[p0][fid] or \
                                        set(cov[rel]["unused_lines"]) != m.all_lines(fid) - exp[p0][fid]:
                                    errs.append(f"coverage export of {rel} differs from the expectation")
                        # the link is listed as well, with its target's (one physical file's) partition
                        lk = os.path.join("inc", "alias.F90")
                        tfid = "src/m1.c"
                        if lk not in cov or set(cov[lk]["used_lines"]) != exp[p0][tfid] or \
                                set(cov[lk]["unused_lines"]) != m.all_lines(tfid) - exp[p0][tfid]:
                            errs.append(f"coverage export of the link {lk} differs from its target's partition")
                        if len(cov) != 1 + len([1 for f, p in m.paths.items() if p.startswith(os.path.realpath(m.root) + os.sep)]):
                            errs.append(f"coverage export lists {sorted(cov)}")
                    if errs:
                        fails.append(dict(layer="G", tags=sorted(tags), symptom="result-depends-on-schedule",
                                          detail=f"{what}: " + "; ".join(errs[:5]), case={"scen": sc, "sched": s}))
                        break
            finally:
                shutil.rmtree(base, ignore_errors=True)
        for k in [k for k in stats if isinstance(k, tuple)]:
            del stats[k]
        return fails, stats
    finally:
        shutil.rmtree(shimdir, ignore_errors=True)


def dup_chunk(args):
    cases, scheds, workdir = args
    fails = []
    stats = {"evals": 0, "nontrivial": 0, "skipped": 0}
    shimdir = tempfile.mkdtemp(prefix="shim-", dir=workdir)
    open(os.path.join(shimdir, "sitecustomize.py"), "w").write(SHIM)
    try:
        for ci, case in enumerate(cases):
            core.tick(case, 900)
            d = tempfile.mkdtemp(prefix="c14d-", dir=workdir)
            try:
                root = os.path.join(d, "root")
                os.makedirs(root)
                # every other code base with 70 KiB contents that differ only in one late byte (equal size, prefix, mtime)
                big = bool(ci % 2 == 1 or case.get("big"))
                paths = C16.materialise(case, root, big=big)
                inv = {os.path.abspath(p): i for i, p in paths.items()}
                want = {frozenset(g) for g in case["groups"]}
                if want:
                    stats["nontrivial"] += 1
                open(os.path.join(root, "none.toml"), "w").write('[codebase]\nexclude = ["excl/"]\n')
                for s in scheds:
                    _, scanorder, hs = sched_params(s, ["p"])
                    stats["evals"] += 1
                    rc, out, err = run_cli("codebasin", ["-R", "duplicates", "none.toml"], root, shimdir, hs, scanorder)
                    groups = set()
                    cur = None
                    for line in out.splitlines():
                        if re.match(r"^Match \d+:", line):
                            cur = set()
                            groups.add(None)
                        mt = re.match(r"^- (.*)$", line)
                        if mt and cur is not None:
                            cur.add(inv.get(os.path.abspath(mt.group(1).strip()), mt.group(1)))
                            groups.discard(None)
                            groups = {g for g in groups if g is not None and not (g < frozenset(cur))} | {frozenset(cur)}
                    if rc != 0 or groups != want:
                        fails.append(dict(layer="G", tags=sorted(C16.tags_of(case) | {"c14", "duplicates"}),
                                          symptom="duplicate-groups-depend-on-schedule",
                                          detail=f"scandir order #{scanorder}, PYTHONHASHSEED={hs}: rc={rc} groups "
                                                 f"{sorted(map(sorted, groups), key=str)} expected {sorted(map(sorted, want))}\n{out[-300:]}",
                                          case={"dup": dict(case, big=big), "sched": s}))
                        break
            finally:
                shutil.rmtree(d, ignore_errors=True)
        return fails, stats
    finally:
        shutil.rmtree(shimdir, ignore_errors=True)


def _sjobs(js):
    return [scen_chunk(j) for j in js]


def _djobs(js):
    return [dup_chunk(j) for j in js]


def run(ctx):
    q = ctx.quick
    r = core.tlc("MC_Schedules", "MC_Schedules.cfg", workers=8, timeout=900, tag="sched")
    ctx.add_tlc("MC_Schedules Confluent (every platform / file / extract order)", r)
    if r.violation:
        ctx.model_violation("MC_Schedules", r)
    os.makedirs(core.OUT, exist_ok=True)
    p = os.path.join(core.OUT, f"MC_Schedules_emit_{os.getpid()}.cfg")
    open(p, "w").write(open(os.path.join(core.SPECS, "MC_Schedules.cfg")).read() + "INVARIANT Emit\n")
    try:
        r2 = core.tlc("MC_Schedules", p, workers=1, timeout=900, tag="schedE")
    finally:
        os.unlink(p)
    scheds = [j for j in r2.json if isinstance(j, dict) and "porder" in j]
    seen, us = set(), []
    for s in scheds:
        k = json.dumps(s, sort_keys=True)
        if k not in seen:
            seen.add(k)
            us.append(s)
    scheds = us
    if not scheds:
        raise core.MachineryError("MC_Schedules printed no schedules")
    ctx.cov["schedules_explored"] = len(scheds)
    rnd = random.Random(ctx.seed)
    scens = runner.sharded_tlc(ctx, "GenScen", C04.CFG.format(profile="c06", shard=0, nshards=1), 16, "GenScen_c06",
                               timeout=1200, simulate=f"num={6 if q else 40}", depth=30, seed=ctx.seed + 71)
    scens = C04.dedup(scens)
    k = 4 if q else 8
    small = runner.sharded_tlc(ctx, "GenScen", C04.CFG.format(profile="c14s", shard="@SHARD@", nshards="@NSHARDS@"), 8,
                               "GenScen_c14s", timeout=900)
    small = [sc for sc in C04.dedup(small) if len({e["plat"] for e in sc["ents"]}) == 2 and len(sc["files"]) >= 3]
    ctx.cov["scenarios_exhaustive_c14s"] = len(small)
    scens = small + scens
    pairs = [(sc, rnd.sample(scheds, k)) for sc in scens]
    dups = runner.sharded_tlc(ctx, "Duplicates", C16.GEN_CFG.format(n=4, pool=C16.tla_set(["", "a", "A"]),
                                                                    kinds=C16.tla_set(["reg", "sym", "hard"]),
                                                                    shard="@SHARD@", nshards="@NSHARDS@"), 4, "GenDuplicates",
                              timeout=900)
    dups = [c for c in dups if c["groups"]]
    dups = dups[:: max(1, len(dups) // (40 if q else 300))]
    ctx.cov["rule"] = (
        "schedules = the distinct (platform order, file order, extract order) triples of MC_Schedules' behaviours, mapped "
        "to: order of the [platform.*] tables in the analysis file, an os.scandir shim that re-orders every directory "
        "listing deterministically from the file order, and PYTHONHASHSEED; each GenScen (profile c06) scenario is analysed "
        f"under {k} schedules in fresh interpreters through codebasin -R summary, cbi-tree and cbi-cov and each run's parsed "
        "output must equal the Reports.tla expectation (and printed metrics must be identical across schedules); "
        "Duplicates.tla code bases with at least one group are analysed with -R duplicates under the same schedules. "
        "non-trivial = more than one platform / at least one duplicate group")
    ctx.cov["scenarios"] = len(scens)
    ctx.cov["duplicate_codebases"] = len(dups)
    ctx.sample({"schedule": scheds[0], "mapped_to": sched_params(scheds[0], ["p1", "p2", "p3"])})
    work = ctx.scratch()
    jobs = [(c, ctx.seed, work) for c in runner.chunks(pairs, runner.NCPU * 2)]
    for lst in runner.pmap(_sjobs, jobs, chunk=1):
        for fails, stats in lst:
            ctx.cov["evaluations"] += stats["evals"]
            ctx.cov["distinct_nontrivial"] += stats["nontrivial"]
            ctx.cov["skipped"] = ctx.cov.get("skipped", 0) + stats["skipped"]
            for f in fails:
                ctx.fail(f["layer"], f["tags"], f["symptom"], f["detail"], f["case"])
    dsched = rnd.sample(scheds, 3 if q else 6)
    jobs = [(c, dsched, work) for c in runner.chunks(dups, runner.NCPU * 2)]
    for lst in runner.pmap(_djobs, jobs, chunk=1):
        for fails, stats in lst:
            ctx.cov["evaluations"] += stats["evals"]
            ctx.cov["distinct_nontrivial"] += stats["nontrivial"]
            for f in fails:
                ctx.fail(f["layer"], f["tags"], f["symptom"], f["detail"], f["case"])


def replay(ctx, path):
    c = json.load(open(os.path.join(path, "case.json")))
    print(json.dumps(c, indent=1)[:4000])
    case = c.get("case") or {}
    if "scen" in case:
        fails, _ = scen_chunk(([(case["scen"], [case["sched"]])], ctx.seed, ctx.scratch()))
    elif "dup" in case:
        fails, _ = dup_chunk(([case["dup"]], [case["sched"]], ctx.scratch()))
    else:
        fails = []
    for f in fails:
        print("REPRODUCED:", f["symptom"], f["detail"][:2000])
        ctx.fail(f["layer"], f["tags"], f["symptom"], f["detail"], f["case"])
    ctx.cov["evaluations"] = 1
