"""
C04 - #include resolution and attribution across files follow compiler rules.

M  GenScen.tla (profiles c04q/c04t): the reference machine is total, order-independent, warns only
   for reached includes;  MC_IncludeMemo.tla: the implementation model of
   Platform.find_include_file (memo and its key) equals memory-less reference resolution in every
   reachable state, for every existence map and every sequence of look-ups.
G  every generated tree x TU is materialised (real dirs, real compile_commands.json through
   config.load_database) and finder.find's per-line attribution of every file is compared with
   PreprocCore's; + simulated larger scenarios; gcc -E validates the reference on a sample.
V  Trace_Preproc: Resolve/Enter/Exit/Visit events of these runs.
"""
import os
import random
import re
import shutil
import subprocess

from .. import cbi, core, render, runner, scen, trace_preproc

CFG = """SPECIFICATION Spec
CONSTANTS
  Profile = "{profile}"
  Shard = {shard}
  NShards = {nshards}
CHECK_DEADLOCK FALSE
"""
INVS = "INVARIANT RefTotal\nINVARIANT WarnsOnlyReached\nINVARIANT OrderIndependent\n"


def gcc_agrees(m, sc, i):
    """Validate the reference on TU i with gcc -E: returns True/False/None(not applicable)."""
    e = sc["ents"][i]
    res = sc["res"][i]
    a = ["gcc", "-E", "-P"]
    a += scen.x_args(e) + [scen.XSTR_ARG]
    if e.get("hdr", "U") != "U":
        a.append("-DHDR=" + render.val_text(e["hdr"]))
    for r in e["idirs"]:
        a += ["-isystem" if r["sys"] else "-I", m.dir_path(r["d"])]
    for n in e["forced"]:
        a += ["-include", n]
    a.append(m.paths[e["file"]])
    p = subprocess.run(a, cwd=m.root, capture_output=True, text=True)
    ok = p.returncode == 0 and p.stderr.strip() == ""
    want_ok = res["ok"] and not res["warns"]
    if ok != want_ok:
        return False
    if not ok:
        return True
    # every attributed code item's marker token must survive, every other must not
    exp = m.expected_lines(res["attr"])
    # a byte-identical copy carries the same marker tokens as its original: both are left out of the marker test
    twins = {f for f, v in sc["files"].items() if v.get("copyof")} | {v["copyof"] for v in sc["files"].values() if v.get("copyof")}
    for fid in m.paths:
        if fid in twins:
            continue
        items = sc["files"][fid]["items"]
        for idx, it in enumerate(items):
            if it["k"] != "code":
                continue
            lines = m.lines_of[fid][idx]
            src = " ".join(m.text[fid].splitlines()[ln - 1] for ln in lines)
            mt = re.search(r"\b(v" + "".join(c for c in fid if c.isalnum()) + r"\d+)\b", src)
            if mt is None:
                continue
            present = re.search(r"\b" + mt.group(1) + r"\b", p.stdout) is not None
            # an item may be included several times: attributed iff present at least once
            if present != bool(set(lines) & exp[fid]):
                return False
    return True


def replay_chunk(args):
    scens, seed, workdir, want_trace, label, do_gcc = args
    fails = []
    stats = {"evals": 0, "nontrivial": 0, "ill": 0, "traces": [], "gcc": 0, "gcc_dis": 0, "bases": []}
    for si, sc in enumerate(scens):
        core.tick(sc, 300)
        if not scen.well_formed(sc) or any(r["warns"] for r in sc["res"]):
            stats["ill"] += 1
            continue
        base = scen.new_base(workdir)
        keep = False
        try:
            rnd = random.Random(f"{seed}-{si}-{len(sc['files'])}")
            m = scen.Mat(sc, base, dotted=True, seed=rnd.random())
            tags = scen.features(sc)
            if do_gcc and si % do_gcc == 0:
                for i in range(len(sc["ents"])):
                    g = gcc_agrees(m, sc, i)
                    stats["gcc"] += 1
                    if g is False:
                        stats["gcc_dis"] += 1
            exp = scen.expected_by_plat(m, sc)
            stats["evals"] += 1
            if len({tuple(sorted((f, tuple(sorted(v))) for f, v in d.items())) for d in exp.values()}) >= 1 and \
                    "hdr.same_name_multi_dir" in tags:
                stats["nontrivial"] += 1
            tf = os.path.join(base, "trace.ndjson") if (want_trace and si % want_trace == 0) else None
            err = None
            with cbi.tracing(tf):
                try:
                    conf = m.load_configuration(scen.ents_by_plat(sc), rnd)
                except Exception as ex:  # noqa
                    err = (type(ex).__name__, str(ex), "")
                if err is None:
                    st, cb, logs, err = cbi.run_find(m.root, conf)
            if err is not None:
                fails.append(dict(layer="G", tags=sorted(tags | {"exception"}), symptom=f"exception:{err[0]}",
                                  detail=f"{err[1]}\n{err[2]}", case=sc))
                continue
            diffs = scen.compare(m, sc, st, exp)
            if diffs:
                fails.append(dict(layer="G", tags=sorted(tags), symptom="attribution-differs",
                                  detail="; ".join(diffs[:6]) + "\nents=" + repr(sc["ents"]) +
                                         "\nfiles=" + repr({k: v["items"] for k, v in sc["files"].items()}),
                                  case=sc))
            if tf and os.path.exists(tf):
                stats["traces"].append((tf, f"{label}:{os.path.basename(base)}"))
                keep = True
        finally:
            if keep:
                stats["bases"].append(base)
            else:
                shutil.rmtree(base, ignore_errors=True)
    return fails, stats


def _jobs(js):
    return [replay_chunk(j) for j in js]


def replay_all(ctx, scens, want_trace=0, label="G", do_gcc=0):
    work = ctx.scratch()
    jobs = [(c, ctx.seed, work, want_trace, label, do_gcc) for c in runner.chunks(scens, runner.NCPU * 3)]
    res = runner.pmap(_jobs, jobs, chunk=1)
    traces, bases = [], []
    for lst in res:
        for fails, stats in lst:
            ctx.cov["evaluations"] += stats["evals"]
            ctx.cov["distinct_nontrivial"] += stats["nontrivial"]
            ctx.cov["excluded_illformed_or_missing"] = ctx.cov.get("excluded_illformed_or_missing", 0) + stats["ill"]
            ctx.cov["oracle_checks_gcc"] = ctx.cov.get("oracle_checks_gcc", 0) + stats["gcc"]
            ctx.cov["oracle_disagreements"] += stats["gcc_dis"]
            traces += stats["traces"]
            bases += stats["bases"]
            for f in fails:
                ctx.fail(f["layer"], f["tags"], f["symptom"], f["detail"], f["case"])
    return traces, bases


def dedup(scens):
    seen, out = set(), []
    for s in scens:
        k = repr((s["files"], s["ents"]))
        if k not in seen:
            seen.add(k)
            out.append(s)
    return out


def model_check(ctx, profile, name, timeout=3000):
    p = os.path.join(core.OUT, f"{name}_{os.getpid()}.cfg")
    os.makedirs(core.OUT, exist_ok=True)
    open(p, "w").write(CFG.format(profile=profile, shard=1, nshards=1) + INVS)
    try:
        r = core.tlc("GenScen", p, workers=runner.NCPU, timeout=timeout, tag=name, heap="8g")
    finally:
        os.unlink(p)
    ctx.add_tlc(name, r, note=f"profile {profile}: reference machine invariants on every generated scenario")
    if r.violation:
        ctx.model_violation(name, r)
    return r


def memo_model(ctx):
    r = core.tlc("MC_IncludeMemo", "MC_IncludeMemo.cfg", workers=runner.NCPU, timeout=1200, tag="memo")
    ctx.add_tlc("MC_IncludeMemo (find_include_file model == memory-less resolution)", r)
    if r.violation:
        ctx.model_violation("MC_IncludeMemo", r)


def run(ctx):
    q = ctx.quick
    memo_model(ctx)
    model_check(ctx, "c04q", "MC_GenScen_c04q")
    # G: exhaustive over the quick profile
    cases = runner.sharded_tlc(ctx, "GenScen", CFG.format(profile="c04q", shard="@SHARD@", nshards="@NSHARDS@"),
                               16, "GenScen_c04q", timeout=3000)
    cases += runner.sharded_tlc(ctx, "GenScen", CFG.format(profile="c04h", shard="@SHARD@", nshards="@NSHARDS@"),
                                16, "GenScen_c04h", timeout=3000)
    cases += runner.sharded_tlc(ctx, "GenScen", CFG.format(profile="c04g", shard="@SHARD@", nshards="@NSHARDS@"),
                                16, "GenScen_c04g", timeout=3000)
    cases += runner.sharded_tlc(ctx, "GenScen", CFG.format(profile="c04s", shard="@SHARD@", nshards="@NSHARDS@"),
                                16, "GenScen_c04s", timeout=3000)
    if not q:
        cases += runner.sharded_tlc(ctx, "GenScen", CFG.format(profile="c04t", shard="@SHARD@", nshards="@NSHARDS@"),
                                    16, "GenScen_c04t", timeout=3000, simulate="num=4000", depth=30, seed=ctx.seed + 7)
    sim = runner.sharded_tlc(ctx, "GenScen", CFG.format(profile="sim", shard=0, nshards=1),
                             8 if q else 16, "GenScen_sim", timeout=900,
                             simulate=f"num={25 if q else 400}", depth=40, seed=ctx.seed + 3)
    cases = dedup(cases)
    sim = dedup(sim)
    if not cases:
        raise core.MachineryError("no scenarios generated")
    ctx.cov["rule"] = (
        "GenScen profile c04q exhaustively: every assignment of {absent, defining, guarded, including-the-other} bodies "
        "to 4 header slots (same name beside the includer, in a -I dir and in a -isystem dir) x every main file of <= 2 "
        "include/undef statements (quote and angle) + probe block x 4 orders of -I/-isystem x X defined or not; profile "
        "c04h (computed include whose operand comes from -DHDR, two TUs of one platform) and profile c04g (guarded / "
        "#pragma once / plain headers included repeatedly with the guard macros undefined in between) and profile c04s "
        "(include names with directory components: sub/k.h, and tosub/../j.h through a directory link), all exhaustively; plus "
        "TLC-simulated scenarios from the rich profile (7 slots incl. a directory outside the root, 10 bodies, computed "
        "includes, -include, 2 mains, 3 TUs, 2 platforms). evaluations = well-formed scenarios replayed; non-trivial = "
        "the same header name exists in more than one directory")
    ctx.cov["exhaustive"] = True
    ctx.cov["scenarios_exhaustive"] = len(cases)
    ctx.cov["scenarios_simulated"] = len(sim)
    mid = cases[len(cases) // 2]
    ctx.sample({"files": {k: v["items"] for k, v in mid["files"].items()}, "ents": mid["ents"], "expected": mid["res"]})
    traces, bases = replay_all(ctx, cases, want_trace=(150 if q else 60), label="c04", do_gcc=(40 if q else 10))
    t2, b2 = replay_all(ctx, sim, want_trace=(12 if q else 6), label="sim", do_gcc=(5 if q else 2))
    traces += t2
    bases += b2
    n = ctx.cov.get("oracle_checks_gcc", 0)
    if n and ctx.cov["oracle_disagreements"] / n > 0.02:
        raise core.MachineryError(f"reference disagrees with gcc -E on {ctx.cov['oracle_disagreements']}/{n} TUs")
    try:
        trace_preproc.validate(ctx, traces, tag="C04")
    finally:
        for b in bases:
            shutil.rmtree(b, ignore_errors=True)


def replay(ctx, path):
    import json
    c = json.load(open(os.path.join(path, "case.json")))
    print(json.dumps(c, indent=1)[:6000])
    fails, stats = replay_chunk(([c["case"]], ctx.seed, ctx.scratch(), 0, "replay", 0))
    for f in fails:
        print("REPRODUCED:", f["symptom"], f["detail"][:2000])
        ctx.fail(f["layer"], f["tags"], f["symptom"], f["detail"], f["case"])
    ctx.cov["evaluations"] = 1
