"""
C07 - coverage, average coverage, distance and divergence equal their definitions.

M  GenMetrics.tla invariant Laws on the reference definitions (Metrics.tla, exact rationals):
   symmetry, zero diagonal, ranges, invariance under every renaming and under scaling by 2/3/10,
   NaN exactly when undefined - on every table of the profile.
G  every table (platform sets present/absent, counts incl. 0) with its exact metrics is replayed
   into report.coverage / average_coverage / distance / divergence under several platform
   namings (incl. names that are substrings of each other), key orders and scale factors (up to
   10^12 lines), for every `platforms` subset; the numbers printed by report.summary and the
   distance matrix printed by report.clustering are parsed back and compared too.
"""
import io
import itertools
import math
import os
import random
import re
from fractions import Fraction

from .. import core, runner

CFG = """SPECIFICATION Spec
CONSTANTS
  Profile = "{profile}"
  Shard = {shard}
  NShards = {nshards}
CHECK_DEADLOCK FALSE
"""

NAMINGS = [
    {1: "A", 2: "B", 3: "C"},
    {1: "cpu", 2: "cpu-avx512", 3: "gpu"},
    {1: "z", 2: "a", 3: "m"},
    {1: "node1", 2: "node10", 3: "node"},
]
SCALES = [1, 7, 10**9, 2 * 10**11]


def dist_of(case, p, q):
    """dist is a TLA+ function over the platform set: JSON array if the set is 1..n, else an object"""
    d = case["dist"]
    row = d[p - 1] if isinstance(d, list) else d[str(p)]
    return row[q - 1] if isinstance(row, list) else row[str(q)]


def frac(r):
    return None if r[1] == 0 else Fraction(r[0], r[1])


def parse_setkey(s):
    s = s.strip()[1:-1].strip()
    return frozenset(int(x) for x in s.split(",")) if s else frozenset()


def close(got, want):
    """got: float or exception marker; want: Fraction or None (NaN)"""
    if want is None:
        return isinstance(got, float) and math.isnan(got)
    if not isinstance(got, (int, float)) or (isinstance(got, float) and math.isnan(got)):
        return False
    w = float(want)
    return abs(got - w) <= 1e-9 * max(1.0, abs(w))


def tags_of(case):
    t = set()
    tab = case["table"]
    if any(e["n"] == 0 for e in tab):
        t.add("table.zero_count_entry")
    tot = sum(e["n"] for e in tab)
    if tot == 0:
        t.add("table.no_lines")
    plats = case["plats"]
    for p in plats:
        if all(e["n"] == 0 for e in tab if p in e["k"]):
            t.add("table.platform_without_lines")
    if len(plats) < 2:
        t.add("table.lt2_platforms")
    return t


def call(fn, *a):
    try:
        return float(fn(*a))
    except BaseException as e:  # noqa
        if isinstance(e, (KeyboardInterrupt, SystemExit)):
            raise
        return "exception:" + type(e).__name__


def check_chunk(args):
    cases, seed, printed_every = args
    import warnings
    warnings.simplefilter("ignore")
    from codebasin import report
    fails = []
    stats = {"evals": 0, "nontrivial": 0, "printed": 0}
    for ci, case in enumerate(cases):
        core.tick(case, 300)
        tg = tags_of(case)
        plats = case["plats"]
        cov = {parse_setkey(k): frac(v) for k, v in case["cov"].items()}
        avg = {parse_setkey(k): frac(v) for k, v in case["avg"].items()}
        div = frac(case["div"])
        if len(plats) >= 2 and div not in (None, 0):
            stats["nontrivial"] += 1
        rnd = random.Random(f"{seed}-{ci}")
        bad = None
        for ni, naming in enumerate(NAMINGS):
            scale = SCALES[(ci + ni) % len(SCALES)]
            ents = list(case["table"])
            rnd.shuffle(ents)
            setmap = {frozenset(naming[p] for p in e["k"]): e["n"] * scale for e in ents}
            allp = frozenset(plats)
            # whole-table metrics
            checks = [("coverage", call(report.coverage, setmap), cov[allp]),
                      ("average_coverage", call(report.average_coverage, setmap), avg[allp] if plats else None),
                      ("divergence", call(report.divergence, setmap), div)]
            for S in cov:
                if not S:
                    continue
                names = {naming[p] for p in S}
                checks.append((f"coverage[{sorted(S)}]", call(report.coverage, setmap, names), cov[S]))
                checks.append((f"average_coverage[{sorted(S)}]", call(report.average_coverage, setmap, names), avg[S]))
            for i, p in enumerate(plats):
                for j, qq in enumerate(plats):
                    checks.append((f"distance[{p},{qq}]", call(report.distance, setmap, naming[p], naming[qq]),
                                   frac(dist_of(case, p, qq))))
            for name, got, want in checks:
                stats["evals"] += 1
                if isinstance(got, str):
                    bad = (f"{got}", f"{name} raised on {setmap}")
                    break
                if not close(got, want):
                    bad = (f"wrong-{name.split('[')[0]}", f"{name} = {got!r}, definition gives {want} on {setmap}")
                    break
            if bad:
                break
            # printed numbers
            if printed_every and (ci + ni) % printed_every == 0 and sum(setmap.values()) > 0:
                stats["printed"] += 1
                buf = io.StringIO()
                try:
                    report.summary(setmap, stream=buf)
                except BaseException as e:  # noqa
                    bad = (f"exception:{type(e).__name__}", f"report.summary raised on {setmap}")
                    break
                out = buf.getvalue()
                for label, want in (("Code Divergence", div), ("Coverage \\(%\\)", cov[allp]),
                                    ("Avg. Coverage \\(%\\)", avg[allp] if plats else None)):
                    mt = re.search(r"^" + label + r": (\S+)$", out, re.M)
                    stats["evals"] += 1
                    if not mt:
                        bad = ("summary-line-missing", f"{label} not printed: {out[-300:]}")
                        break
                    txt = mt.group(1)
                    if want is None:
                        okp = txt == "nan"
                    else:
                        okp = txt != "nan" and abs(float(txt) - float(want)) <= 0.005 + 1e-9
                    if not okp:
                        bad = ("wrong-printed-metric", f"summary prints {label}: {txt}, definition gives {want} on {setmap}")
                        break
                if bad:
                    break
                # the LOC column must be the table itself and the percentages count/total
                tot = sum(setmap.values())
                for mt in re.finditer(r"\{([^}]*)\}\s*[^\d\s]\s*(\d+)\s*[^\d\s]\s*([\d.]+)", out):
                    key = frozenset(x.strip() for x in mt.group(1).split(",") if x.strip())
                    stats["evals"] += 1
                    if setmap.get(key) != int(mt.group(2)) or abs(float(mt.group(3)) - 100.0 * setmap[key] / tot) > 0.005 + 1e-9:
                        bad = ("wrong-summary-row", f"row {sorted(key)} prints {mt.group(2)} / {mt.group(3)}% on {setmap}")
                        break
                if bad:
                    break
        if bad:
            fails.append(dict(layer="G", tags=sorted(tg), symptom=bad[0], detail=bad[1], case=case))
    return fails, stats


def _jobs(js):
    return [check_chunk(j) for j in js]


def clustering_matrix(ctx, cases, n):
    """the distance matrix printed by report.clustering (labelled) equals Distance"""
    import warnings
    warnings.simplefilter("ignore")
    from codebasin import report
    import tempfile
    pick = [c for c in cases if len(c["plats"]) >= 2 and frac(c["div"]) is not None and
            all(frac(dist_of(c, a, b)) is not None for a in c["plats"] for b in c["plats"])]
    pick = pick[:: max(1, len(pick) // n)][:n]
    d = tempfile.mkdtemp(prefix="c07-", dir=ctx.scratch())
    cwd = os.getcwd()
    os.chdir(d)
    try:
        for ci, case in enumerate(pick):
            naming = NAMINGS[ci % len(NAMINGS)]
            setmap = {frozenset(naming[p] for p in e["k"]): e["n"] for e in case["table"]}
            buf = io.StringIO()
            try:
                report.clustering("out.png", setmap, stream=buf)
            except BaseException as e:  # noqa
                ctx.fail("G", sorted(tags_of(case) | {"clustering"}), f"exception:{type(e).__name__}",
                         f"report.clustering raised on {setmap}: {e}", case)
                continue
            out = buf.getvalue()
            names = sorted(naming[p] for p in case["plats"])
            rows = {}
            for line in out.splitlines():
                cells = [c.strip() for c in re.split(r"[│|]", line) if c.strip()]
                if cells and cells[0] in names and len(cells) == len(names) + 1:
                    rows[cells[0]] = cells[1:]
            ctx.cov["evaluations"] += 1
            inv = {v: k for k, v in naming.items()}
            okm = len(rows) == len(names)
            for rn in names:
                if not okm:
                    break
                for cj, cn in enumerate(names):
                    want = float(frac(dist_of(case, inv[rn], inv[cn])))
                    if abs(float(rows[rn][cj]) - want) > 0.005 + 1e-9:
                        okm = False
            if not okm:
                ctx.fail("G", sorted(tags_of(case) | {"clustering"}), "wrong-distance-matrix",
                         f"clustering prints {rows} for {setmap}", case)
    finally:
        os.chdir(cwd)


def run(ctx):
    q = ctx.quick
    profs = ["p2", "p3q"] if q else ["p2x", "p3", "p3t"]
    cases = []
    for pr in profs:
        p = os.path.join(core.OUT, f"GenMetrics_M_{pr}_{os.getpid()}.cfg")
        os.makedirs(core.OUT, exist_ok=True)
        open(p, "w").write(CFG.format(profile=pr, shard=1, nshards=1) + "INVARIANT Laws\n")
        try:
            r = core.tlc("GenMetrics", p, workers=runner.NCPU, timeout=6000, tag="C07M", heap="8g")
        finally:
            os.unlink(p)
        ctx.add_tlc(f"MC GenMetrics Laws, profile {pr}", r)
        if r.violation:
            ctx.model_violation("GenMetrics", r)
        cases += runner.sharded_tlc(ctx, "GenMetrics", CFG.format(profile=pr, shard="@SHARD@", nshards="@NSHARDS@"), 16,
                                    f"GenMetrics_{pr}", timeout=6000)
    if not cases:
        raise core.MachineryError("no tables generated")
    ctx.cov["rule"] = (
        "every table over 2 platforms (each of the 4 platform sets absent or with a count from {0,1,2,5}) and over 3 "
        "platforms (8 sets, absent or a count from the profile's set), with exact rational metrics from Metrics.tla; each "
        "is replayed under 4 platform namings (incl. names that are substrings of one another), shuffled key order and "
        "scale factors 1, 7, 1e9, 2e11, for every non-empty `platforms` subset and every ordered platform pair; "
        "report.summary's printed metrics/rows and report.clustering's distance matrix are parsed back. "
        "non-trivial = at least two platforms and a divergence that is defined and non-zero")
    ctx.cov["exhaustive"] = True
    ctx.cov["tables"] = len(cases)
    ctx.sample(cases[len(cases) // 2])
    jobs = [(c, ctx.seed, 5 if q else 3) for c in runner.chunks(cases, runner.NCPU * 3)]
    for lst in runner.pmap(_jobs, jobs, chunk=1):
        for fails, stats in lst:
            ctx.cov["evaluations"] += stats["evals"]
            ctx.cov["distinct_nontrivial"] += stats["nontrivial"]
            ctx.cov["summaries_parsed"] = ctx.cov.get("summaries_parsed", 0) + stats["printed"]
            for f in fails:
                ctx.fail(f["layer"], f["tags"], f["symptom"], f["detail"], f["case"])
    clustering_matrix(ctx, cases, 12 if q else 60)


def replay(ctx, path):
    import json
    c = json.load(open(os.path.join(path, "case.json")))
    print(json.dumps(c, indent=1)[:3000])
    if c.get("case"):
        fails, _ = check_chunk(([c["case"]], ctx.seed, 1))
        for f in fails:
            print("REPRODUCED:", f["symptom"], f["detail"])
            ctx.fail(f["layer"], f["tags"], f["symptom"], f["detail"], f["case"])
    ctx.cov["evaluations"] = 1
