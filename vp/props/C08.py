"""
C08 - translation units and platforms are analysed in isolation and compose.

M  MC_Isolation.tla: finder.find's loop as a machine processing the TUs in EVERY order; invariant
   Composition (platform association = union of its TUs analysed alone), Projection, AssocMonotone.
   (The self-test runs it with Reset = keep_once / keep_defs and expects counterexamples.)
G  GenScen scenarios (profile c08q + simulated): the real pipeline is run (a) on the full
   configuration, (b) on every single-command split, (c) with the commands of every platform
   reversed/rotated, (d) through the CLI with every -p subset; all compared with the
   reference's expectation (not merely with each other).
V  Trace_Preproc: every BeginTU must show an empty memo, an empty include-once set and exactly the
   -D macros (the inductive strengthening that catches hoisted state on every traced run).
"""
import itertools
import os
import random
import re
import shutil
import subprocess
import sys

from .. import cbi, core, runner, scen, trace_preproc
from . import C04

ROW = re.compile(r"\{([^}]*)\}\s*[^\d\s]\s*(\d+)\s*[^\d\s]\s*([\d.]+)")


def expected_setmap(m, scen_, exp, plats):
    """setmap over code-base files (inside root) from expectations restricted to `plats`."""
    sm = {}
    for fid, path in m.paths.items():
        if not path.startswith(os.path.realpath(m.root) + os.sep):
            continue
        for ln in m.all_lines(fid):
            ps = frozenset(p for p in plats if p in exp and ln in exp[p][fid])
            sm[ps] = sm.get(ps, 0) + 1
    return sm


def run_cli_summary(m, plats_all, subset, dbs):
    toml = os.path.join(m.base, "analysis.toml")
    with open(toml, "w") as f:
        for p in plats_all:
            f.write(f'[platform.{p}]\ncommands = "{dbs[p]}"\n\n')
    cmd = [sys.executable, "-m", "codebasin", "-R", "summary"]
    for p in subset:
        cmd += ["-p", p]
    cmd.append(toml)
    env = dict(os.environ, PYTHONPATH=core.repo_path())
    env.pop("CBI_VERIF", None)
    r = core.run_impl(cmd, 120, cwd=m.root, env=env, capture_output=True, text=True)
    sm = {}
    for mt in ROW.finditer(r.stdout):
        names = frozenset(x.strip() for x in mt.group(1).split(",") if x.strip())
        sm[names] = int(mt.group(2))
    return r.returncode, sm, r.stdout + r.stderr


def replay_chunk(args):
    scens, seed, workdir, want_trace, label, cli_every = args
    import json
    fails = []
    stats = {"evals": 0, "nontrivial": 0, "ill": 0, "traces": [], "bases": [], "cli": 0}
    for si, sc in enumerate(scens):
        core.tick(sc, 600)
        if not scen.well_formed(sc) or any(r["warns"] for r in sc["res"]):
            stats["ill"] += 1
            continue
        base = scen.new_base(workdir)
        keep = False
        try:
            rnd = random.Random(f"{seed}-{si}")
            # every other scenario compiles its second main as C++: headers are then reached from includers of
            # different languages within one run
            m = scen.Mat(sc, base, dotted=True, seed=rnd.random(), ext_of=({"src/m2.c": ".cpp"} if si % 2 else None))
            tags = scen.features(sc) | {"c08"}
            if "argv.forced_name_beside_main" in tags:
                # the -include look-up deviation is C04's recorded finding; it says nothing about isolation
                stats["ill"] += 1
                continue
            byp = scen.ents_by_plat(sc)
            exp = scen.expected_by_plat(m, sc)
            plats = sorted(byp)
            # nontrivial: some TU alone differs from another TU of the same platform, or platforms differ
            per_tu = [tuple(sorted(map(tuple, r["attr"]))) for r in sc["res"]]
            if len(set(per_tu)) > 1:
                stats["nontrivial"] += 1

            def check(conf, exp_, what, tf=None):
                stats["evals"] += 1
                with cbi.tracing(tf):
                    st, cb, logs, err = cbi.run_find(m.root, conf)
                if err is not None:
                    fails.append(dict(layer="G", tags=sorted(tags | {"exception"}), symptom=f"exception:{err[0]}",
                                      detail=f"{what}: {err[1]}\n{err[2]}", case=sc))
                    return
                d = scen.compare(m, sc, st, exp_, label=what + " ")
                if d:
                    fails.append(dict(layer="G", tags=sorted(tags), symptom=f"attribution-differs:{what.split()[0]}",
                                      detail="; ".join(d[:6]) + "\nents=" + repr(sc["ents"]) + "\nfiles=" +
                                             repr({k: v["items"] for k, v in sc["files"].items()}), case=sc))

            tf = os.path.join(base, "trace.ndjson") if (want_trace and si % want_trace == 0) else None
            with cbi.tracing(None):
                # entries with and without a "directory" key, in any order
                conf = m.load_configuration(byp, rnd, mixed_dirs=True)
            # (a) full configuration
            check(conf, exp, "full", tf)
            # (b) every single-command split
            for i, e in enumerate(sc["ents"]):
                with cbi.tracing(None):
                    c1 = m.load_configuration({e["plat"]: [e]}, rnd)
                check(c1, scen.expected_by_plat(m, sc, only={i}), f"split tu{i}")
            # (c) permuted command order / platform order
            rev = {p: list(reversed(conf[p])) for p in reversed(list(conf))}
            check(rev, exp, "reversed")
            # (c') a further platform without any command (an empty compilation database) changes nothing
            for first in (True, False):
                cz = {"zz_empty": []}
                cz = {**cz, **conf} if first else {**conf, **cz}
                ez = dict(exp)
                ez["zz_empty"] = {fid: set() for fid in m.paths}
                check(cz, ez, "with-empty-platform")
            # (d) CLI with -p subsets
            if cli_every and si % cli_every == 0:
                dbs = {}
                for p in plats:
                    dbp = os.path.join(base, f"cli_{p}.json")
                    with open(dbp, "w") as f:
                        json.dump(m.database(byp[p], rnd), f)
                    dbs[p] = dbp
                subsets = [list(c) for r_ in range(1, len(plats) + 1) for c in itertools.combinations(plats, r_)]
                for sub in subsets:
                    stats["cli"] += 1
                    rc, sm, out = run_cli_summary(m, plats, sub if len(sub) < len(plats) else [], dbs)
                    want = {k: v for k, v in expected_setmap(m, sc, exp, sub).items() if v}
                    got = {k: v for k, v in sm.items() if v}
                    if rc != 0 or got != want:
                        fails.append(dict(layer="G", tags=sorted(tags | {"cli"}), symptom="cli-projection-differs",
                                          detail=f"-p {sub}: rc={rc} got={ {tuple(sorted(k)): v for k, v in got.items()} } "
                                                 f"want={ {tuple(sorted(k)): v for k, v in want.items()} }\n{out[-600:]}",
                                          case=sc))
            if tf and os.path.exists(tf):
                stats["traces"].append((tf, f"{label}:{os.path.basename(base)}"))
                keep = True
        finally:
            if keep:
                stats["bases"].append(base)
            else:
                shutil.rmtree(base, ignore_errors=True)
    return fails, stats


def _jobs(js):
    return [replay_chunk(j) for j in js]


def run(ctx):
    q = ctx.quick
    r = core.tlc("MC_Isolation", "MC_Isolation.cfg", workers=runner.NCPU, timeout=3000, tag="iso", heap="8g")
    ctx.add_tlc("MC_Isolation (Reset=all; every TU order)", r, note="profile c08m")
    if r.violation:
        ctx.model_violation("MC_Isolation", r)
    cfg = C04.CFG
    cases = runner.sharded_tlc(ctx, "GenScen", cfg.format(profile="c08q", shard=0, nshards=1), 8 if q else 16,
                               "GenScen_c08q", timeout=900, simulate=f"num={60 if q else 600}", depth=30,
                               seed=ctx.seed + 11)
    sim = runner.sharded_tlc(ctx, "GenScen", cfg.format(profile="sim", shard=0, nshards=1), 8 if q else 16,
                             "GenScen_sim", timeout=900, simulate=f"num={25 if q else 400}", depth=40,
                             seed=ctx.seed + 13)
    small = runner.sharded_tlc(ctx, "GenScen", cfg.format(profile="c08s", shard="@SHARD@", nshards="@NSHARDS@"), 8,
                               "GenScen_c08s", timeout=900)
    ctx.cov["scenarios_exhaustive_c08s"] = len(small)
    cases = C04.dedup(small + cases + sim)
    if not cases:
        raise core.MachineryError("no scenarios")
    ctx.cov["rule"] = (
        "every scenario of profile c08s (the same header name beside the includers and in a -I directory, quote and angle "
        "form, two TUs on one or two platforms) and TLC-simulated GenScen scenarios (profiles c08q: two mains sharing once/guarded/macro-testing/defining/undefining "
        "headers, 2 TUs on 1-2 platforms; sim: 7 header slots, 3 TUs, 2 platforms, -include, computed includes); each is "
        "run through load_database+finder.find in full, split per command, with command and platform order reversed, and "
        "(sampled) through `codebasin -p` for every platform subset; every run is compared per physical line with the "
        "reference's union of TUs analysed alone. evaluations = finder.find/CLI runs compared; non-trivial = two TUs of the "
        "scenario use different line sets")
    ctx.cov["scenarios"] = len(cases)
    ctx.sample({"files": {k: v["items"] for k, v in cases[0]["files"].items()}, "ents": cases[0]["ents"]})
    work = ctx.scratch()
    jobs = [(c, ctx.seed, work, (6 if q else 4), "c08", (12 if q else 6)) for c in runner.chunks(cases, runner.NCPU * 3)]
    res = runner.pmap(_jobs, jobs, chunk=1)
    traces, bases = [], []
    for lst in res:
        for fails, stats in lst:
            ctx.cov["evaluations"] += stats["evals"] + stats["cli"]
            ctx.cov["cli_runs"] = ctx.cov.get("cli_runs", 0) + stats["cli"]
            ctx.cov["distinct_nontrivial"] += stats["nontrivial"]
            traces += stats["traces"]
            bases += stats["bases"]
            for f in fails:
                ctx.fail(f["layer"], f["tags"], f["symptom"], f["detail"], f["case"])
    try:
        trace_preproc.validate(ctx, traces, tag="C08")
    finally:
        for b in bases:
            shutil.rmtree(b, ignore_errors=True)


def replay(ctx, path):
    import json
    c = json.load(open(os.path.join(path, "case.json")))
    print(json.dumps(c, indent=1)[:6000])
    fails, stats = replay_chunk(([c["case"]], ctx.seed, ctx.scratch(), 0, "replay", 1))
    for f in fails:
        print("REPRODUCED:", f["symptom"], f["detail"][:2000])
        ctx.fail(f["layer"], f["tags"], f["symptom"], f["detail"], f["case"])
    ctx.cov["evaluations"] = 1
