"""
C13 - compilation-database entries resolve to the right files and directories.

M  GenCompDb invariant EntryLocal on the reference path model (FileSys.Resolve): an entry's
   resolution depends on that entry alone, results are canonical, kept entries name existing
   source files.
G  every single-entry database over the catalogues of `directory` spellings (absent, absolute
   inside/outside the root, relative, with . and ..), `file` spellings (absolute, relative to
   the directory, with ./.. segments, missing, object file) and -I lists (absolute, relative),
   with empty commands, + simulated multi-entry databases: config.load_database is compared
   with the reference on entry['file'], entry['include_paths'], which entries are skipped and
   that each skipped entry produced a warning; `gcc -E` run from the entry's directory confirms
   the reference's file/-I interpretation; a finder.find run checks that only files named by
   kept entries (and what they include) are attributed.
"""
import json
import os
import shutil
import subprocess
import tempfile

from .. import cbi, core, runner

CFG = """SPECIFICATION Spec
CONSTANTS
  NE = {ne}
  Shard = {shard}
  NShards = {nshards}
CHECK_DEADLOCK FALSE
"""

TREE = {
    "root/src/a.c": '#include <h.h>\nint a;\n',
    "root/src/b.c": '#include <h.h>\nint b;\n',
    "root/build/gen.c": '#include <h.h>\nint g;\n',
    "outside/bld/o.c": '#include <h.h>\nint o;\n',
    "root/src/a.o": "\x7fELF",
    "root/inc/h.h": "int from_inc;\n",
    "root/build/gen/h.h": "int from_build_gen;\n",
    "outside/bld/gen/h.h": "int from_outside_gen;\n",
}


def real(base, p):
    return os.path.join(base, *p[1:]) if p and p[0] == "B" else os.path.join(*p) if p else "."


def spelled(base, s):
    if s["abs"]:
        return real(base, s["p"])
    return os.path.join(*s["p"]) if s["p"] else "."


def tags_of(case):
    t = set()
    for e in case["ents"]:
        if not e["dir"]["none"] and not e["dir"]["abs"]:
            t.add("entry.directory_relative")
        if e["dir"]["none"]:
            t.add("entry.no_directory")
        if any(not d["abs"] for d in e["incs"]):
            t.add("entry.relative_include_dir")
        if e["cmd"] in ("empty", "blank"):
            t.add("entry.empty_command")
    for x in case["exp"]:
        t.add("entry." + x["why"])
    return t


def check_chunk(args):
    cases, workdir, gcc_every = args
    import warnings
    warnings.simplefilter("ignore")
    from codebasin import config
    fails = []
    stats = {"evals": 0, "nontrivial": 0, "gcc": 0, "gcc_dis": 0}
    base = tempfile.mkdtemp(prefix="c13-", dir=workdir)
    try:
        for rel, text in TREE.items():
            p = os.path.join(base, rel)
            os.makedirs(os.path.dirname(p), exist_ok=True)
            open(p, "w").write(text)
        root = os.path.join(base, "root")
        for ci, case in enumerate(cases):
            core.tick(case, 300)
            db = []
            for e in case["ents"]:
                ent = {"file": spelled(base, e["file"])}
                if not e["dir"]["none"]:
                    ent["directory"] = spelled(base, e["dir"])
                if e["cmd"] == "empty":
                    ent["arguments"] = []
                elif e["cmd"] == "blank":
                    ent["command"] = " \t "
                else:
                    a = ["gcc"]
                    for d in e["incs"]:
                        a += ["-I", spelled(base, d)]
                    ent["arguments"] = a + ["-c", ent["file"]]
                db.append(ent)
            dbp = os.path.join(base, "cc.json")
            with open(dbp, "w") as f:
                json.dump(db, f)
            tg = tags_of(case)
            stats["evals"] += 1
            if any(x["why"] != "kept" for x in case["exp"]) or "entry.directory_relative" in tg:
                stats["nontrivial"] += 1
            want = [(os.path.realpath(real(base, x["file"])), [os.path.realpath(real(base, i)) for i in x["incs"]])
                    for x in case["exp"] if x["why"] == "kept"]
            nskip = sum(1 for x in case["exp"] if x["why"] != "kept")
            with cbi.captured_logs() as h:
                try:
                    ents = config.load_database(dbp, root)
                    err = None
                except BaseException as e:  # noqa
                    if isinstance(e, (KeyboardInterrupt, SystemExit)):
                        raise
                    err = e
                recs = list(h.records)
            if err is not None:
                fails.append(dict(layer="G", tags=sorted(tg | {"exception"}), symptom=f"exception:{type(err).__name__}",
                                  detail=f"{db}: {err}", case=case))
                continue
            got = [(os.path.realpath(e["file"]), [os.path.realpath(i) for i in e["include_paths"]]) for e in ents]
            nwarn = sum(1 for lv, msg in recs if lv == "WARNING" and not msg.startswith("No files found"))
            sym = None
            if [g[0] for g in got] != [w[0] for w in want]:
                sym = "entry-file-differs"
            elif got != want:
                sym = "include-dirs-differ"
            elif nwarn < nskip:
                sym = "skipped-without-warning"
            if sym:
                fails.append(dict(layer="G", tags=sorted(tg), symptom=sym,
                                  detail=f"db={db}\nload_database={got} warnings={nwarn}\nreference={want} skipped={nskip} "
                                         f"({[x['why'] for x in case['exp']]})", case=case))
                continue
            # only files named by kept entries, and what they include, are attributed
            if ci % 7 == 0 and want:
                stats["evals"] += 1
                st, cb, logs, e2 = cbi.run_find(root, {"p": ents})
                if e2 is not None:
                    fails.append(dict(layer="G", tags=sorted(tg | {"exception"}), symptom=f"exception:{e2[0]}",
                                      detail=f"finder.find on {db}: {e2[1]}", case=case))
                else:
                    used = set()
                    for rel in TREE:
                        p = os.path.realpath(os.path.join(base, rel))
                        la = cbi.line_attr(st, p) if rel.endswith((".c", ".h")) else None
                        if la and any("p" in v for k, v in la.items() if k != "__dup__"):
                            used.add(p)
                    allowed = set()
                    for fpath, incs in want:
                        allowed.add(fpath)
                        for i in incs:
                            hh = os.path.join(i, "h.h")
                            if os.path.exists(hh):
                                allowed.add(os.path.realpath(hh))
                                break
                    if used != allowed:
                        fails.append(dict(layer="G", tags=sorted(tg), symptom="attributed-files-differ",
                                          detail=f"db={db}: attributed {sorted(used)} expected {sorted(allowed)}", case=case))
            # gcc confirms the reference: run from the entry's directory
            if gcc_every and ci % gcc_every == 0:
                for e, x in zip(case["ents"], case["exp"]):
                    if e["cmd"] in ("empty", "blank") or x["why"] == "notsource":
                        continue
                    cwd = root if e["dir"]["none"] else (spelled(base, e["dir"]) if e["dir"]["abs"] else os.path.join(root, spelled(base, e["dir"])))
                    a = ["gcc", "-E", "-P"]
                    for d in e["incs"]:
                        a += ["-I", spelled(base, d)]
                    a.append(spelled(base, e["file"]))
                    pr = subprocess.run(a, cwd=cwd, capture_output=True, text=True)
                    stats["gcc"] += 1
                    opened = "No such file or directory" not in pr.stderr or "h.h" in pr.stderr
                    if opened != (x["why"] == "kept"):
                        stats["gcc_dis"] += 1
                        stats.setdefault("gcc_dis_detail", []).append(f"cwd={cwd} {a} -> rc={pr.returncode} {pr.stderr[:200]} why={x['why']}")
                    elif x["why"] == "kept" and pr.returncode == 0 and x["incs"]:
                        # which h.h did gcc pick?  must be the first reference include dir that has one
                        first = next((real(base, i) for i in x["incs"] if os.path.exists(os.path.join(real(base, i), "h.h"))), None)
                        if first:
                            marker = open(os.path.join(first, "h.h")).read().split()[1].rstrip(";")
                            if marker not in pr.stdout:
                                stats["gcc_dis"] += 1
                                stats.setdefault("gcc_dis_detail", []).append(f"cwd={cwd} {a} -> marker {marker} not in {pr.stdout[:100]!r}")
        return fails, stats
    finally:
        shutil.rmtree(base, ignore_errors=True)


def _jobs(js):
    return [check_chunk(j) for j in js]


def run(ctx):
    q = ctx.quick
    os.makedirs(core.OUT, exist_ok=True)
    p = os.path.join(core.OUT, f"GenCompDb_M_{os.getpid()}.cfg")
    open(p, "w").write(CFG.format(ne=1, shard=1, nshards=1) + "INVARIANT EntryLocal\n")
    try:
        r = core.tlc("GenCompDb", p, workers=4, timeout=900, tag="C13M")
    finally:
        os.unlink(p)
    ctx.add_tlc("GenCompDb EntryLocal (every single entry)", r)
    if r.violation:
        ctx.model_violation("GenCompDb", r)
    cases = runner.sharded_tlc(ctx, "GenCompDb", CFG.format(ne=1, shard="@SHARD@", nshards="@NSHARDS@"), 8, "GenCompDb_1",
                               timeout=900)
    sim = runner.sharded_tlc(ctx, "GenCompDb", CFG.format(ne=4, shard=0, nshards=1), 16, "GenCompDb_sim", timeout=900,
                             simulate=f"num={60 if q else 1500}", depth=6, seed=ctx.seed + 8)
    seen, allc = set(), []
    for c in cases + sim:
        k = json.dumps(c["ents"], sort_keys=True)
        if k not in seen:
            seen.add(k)
            allc.append(c)
    if not allc:
        raise core.MachineryError("no databases generated")
    ctx.cov["rule"] = (
        "every single-entry database over 7 `directory` spellings x 9 `file` spellings x 6 -I lists x {command, empty "
        "command} (756) and simulated databases of up to 4 entries; the reference resolves file and -I values against the "
        "entry's directory with realpath semantics and says which entries are skipped and why; load_database must return "
        "exactly the kept entries in order with those paths and warn once per skipped entry; gcc -E run from the entry's "
        "directory confirms the reference on a sample; finder.find must attribute only the kept entries' files and the "
        "header they include. non-trivial = some entry is skipped or uses a relative directory")
    ctx.cov["exhaustive"] = True
    ctx.cov["databases"] = len(allc)
    ctx.sample(allc[len(allc) // 2])
    work = ctx.scratch()
    jobs = [(c, work, 10 if q else 3) for c in runner.chunks(allc, runner.NCPU * 2)]
    for lst in runner.pmap(_jobs, jobs, chunk=1):
        for fails, stats in lst:
            ctx.cov["evaluations"] += stats["evals"]
            ctx.cov["distinct_nontrivial"] += stats["nontrivial"]
            ctx.cov["oracle_checks_gcc"] = ctx.cov.get("oracle_checks_gcc", 0) + stats["gcc"]
            ctx.cov["oracle_disagreements"] += stats["gcc_dis"]
            for dd in stats.get("gcc_dis_detail", [])[:3]:
                print("gcc-disagreement:", dd)
            for f in fails:
                ctx.fail(f["layer"], f["tags"], f["symptom"], f["detail"], f["case"])
    n = ctx.cov.get("oracle_checks_gcc", 0)
    if n and ctx.cov["oracle_disagreements"] / n > 0.02:
        raise core.MachineryError(f"path model disagrees with gcc on {ctx.cov['oracle_disagreements']}/{n} entries")


def replay(ctx, path):
    c = json.load(open(os.path.join(path, "case.json")))
    print(json.dumps(c, indent=1)[:3000])
    if c.get("case"):
        fails, _ = check_chunk(([c["case"]], ctx.scratch(), 0))
        for f in fails:
            print("REPRODUCED:", f["symptom"], f["detail"])
            ctx.fail(f["layer"], f["tags"], f["symptom"], f["detail"], f["case"])
    ctx.cov["evaluations"] = 1
