"""
C02 - #if expressions are evaluated with C integer-constant-expression semantics.

M  MC_CInt: the 64-bit limb arithmetic is the same text checked exhaustively against native
   arithmetic at 8 bits and on boundary pairs at 16 bits; GenCExpr invariant RelationalIs01.
G  GenCExpr (CExpr.Eval is the oracle): every `a op b` over boundary literals, every ordered pair
   of binary operators `a op1 b op2 c`, unary/paren/ternary shapes, every literal spelling,
   defined/identifiers; + simulated long expressions.  The real evaluator is observed through
   IfNode.evaluate_for_platform and through finder.find on generated files with three probes per
   expression: truth of E, `(E) == K` (pins the VALUE), and a signedness probe.
   `#if 1 / #elif E` chains: E must not be evaluated.  gcc -E validates the oracle on a sample.
"""
import os
import random
import shutil
import subprocess
import tempfile

from .. import cbi, core, runner

CFG = """SPECIFICATION Spec
CONSTANTS
  Profile = "{profile}"
  Shard = {shard}
  NShards = {nshards}
CHECK_DEADLOCK FALSE
"""

M64 = 1 << 64


def value_of(case):
    n = 0
    for i, b in enumerate(case["v"]):
        n |= b << (8 * i)
    return n


def k_literal(n, u):
    if u:
        return f"{n}u"
    if n >= (1 << 63):
        s = M64 - n
        if s == (1 << 63):
            return "(-9223372036854775807 - 1)"
        return f"(-{s})"
    return str(n)


def tags_of(case):
    t = set()
    sp = case["sp"]
    for tok in sp:
        if tok in ("/", "%"):
            t.add("op.divmod")
        if tok in ("<", "<=", ">", ">=", "==", "!=", "&&", "||", "!"):
            t.add("op.bool_result")
        if tok in ("<<", ">>"):
            t.add("op.shift")
        if tok in ("?",):
            t.add("op.ternary")
        if tok.startswith("'"):
            t.add("lit.char")
            if "\\" in tok:
                t.add("lit.char_escape")
        if tok[0].isdigit():
            low = tok.lower()
            if low.startswith("0x"):
                t.add("lit.hex")
                if "u" not in low and int(low.rstrip("ul"), 16) > (1 << 63) - 1:
                    t.add("lit.hex_unsuffixed_gt_int64max")
            elif low.startswith("0b"):
                t.add("lit.bin")
            elif len(tok) > 1 and low[0] == "0" and low[1].isdigit():
                t.add("lit.octal")
                if int(low.rstrip("ul"), 8) > (1 << 63) - 1:
                    t.add("lit.octal_unsuffixed_gt_int64max")
            if "u" in low and not low.startswith("0x"):
                t.add("lit.unsigned")
            elif low.startswith("0x") and low.rstrip("l").endswith("u"):
                t.add("lit.unsigned")
    if case["u"]:
        t.add("result.unsigned")
    return t


def _platform():
    from codebasin import platform, preprocessor
    p = platform.Platform("p", "/")
    p.define("DEF", preprocessor.macro_from_definition_string("DEF=1"))
    return p


def eval_real(text):
    """truth of `#if text` through IfNode.evaluate_for_platform; returns (bool|None, exception name)"""
    from codebasin import preprocessor
    try:
        node = preprocessor.DirectiveParser(preprocessor.Lexer("#if " + text).tokenize()).parse()
        r = node.evaluate_for_platform(platform=_platform(), filename="x.c", state=None)
        return bool(r), None
    except BaseException as e:  # noqa
        if isinstance(e, (KeyboardInterrupt, SystemExit)):
            raise
        return None, type(e).__name__


def probes(case):
    text = " ".join(case["sp"])
    n = value_of(case)
    k = k_literal(n, case["u"])
    return text, [
        ("truth", text, bool(case["truth"])),
        ("value", f"({text}) == {k}", True),
        ("value-ne", f"({text}) != {k}", False),
        ("signedness", f"(({text}) * 0 - 1) < 0", not case["u"]),
    ]


def check_chunk(args):
    cases, seed, workdir = args
    import warnings
    warnings.simplefilter("ignore")
    import numpy as np
    np.seterr(all="ignore")
    fails = []
    stats = {"evals": 0, "nontrivial": 0, "undef": 0, "file_blocks": 0}
    blocks = []
    for case in cases:
        core.tick(case, 20)
        if not case["def"]:
            stats["undef"] += 1
            continue
        text, ps = probes(case)
        tg = tags_of(case)
        if len(case["sp"]) > 1:
            stats["nontrivial"] += 1
        bad = False
        for name, expr, want in ps:
            stats["evals"] += 1
            got, exc = eval_real(expr)
            if exc is not None:
                fails.append(dict(layer="G", tags=sorted(tg | {"probe." + name}), symptom=f"exception:{exc}",
                                  detail=f"#if {expr}", case=dict(case=case, probe=expr)))
                bad = True
                break
            if got != want:
                fails.append(dict(layer="G", tags=sorted(tg | {"probe." + name}), symptom=f"wrong-{name}",
                                  detail=f"#if {expr}  -> {got}, ISO C says {want} (value {value_of(case)}"
                                         f"{'u' if case['u'] else ''})", case=dict(case=case, probe=expr)))
                bad = True
                break
        # taken-chain clause: E in an #elif after a taken branch must not be evaluated
        if not bad:
            blocks.append((case, ps))
    # second surface: the same probes through finder.find on a real file (batched)
    if blocks:
        d = tempfile.mkdtemp(prefix="c02-", dir=workdir)
        try:
            lines = []
            expect = {}
            for case, ps in blocks[:400]:
                for name, expr, want in ps[:2]:
                    lines.append(f"#if {expr}")
                    lines.append(f"int a{len(lines)};")
                    expect[len(lines)] = want
                    lines.append("#else")
                    lines.append(f"int b{len(lines)};")
                    expect[len(lines)] = not want
                    lines.append("#endif")
                # an #elif with an EMPTY group still takes part in the chain: when it is selected, the #else is not
                name0, expr0, want0 = ps[0]
                lines.append("#if 0")
                lines.append(f"#elif {expr0}")
                lines.append("#else")
                lines.append(f"int z{len(lines)};")
                expect[len(lines)] = not want0
                lines.append("#endif")
                # E must not be evaluated (nor change the result) in an #elif after a taken branch
                lines.append("#if 1")
                lines.append(f"int c{len(lines)};")
                expect[len(lines)] = True
                lines.append(f"#elif {ps[0][1]}")
                lines.append(f"int d{len(lines)};")
                expect[len(lines)] = False
                lines.append("#endif")
            path = os.path.join(d, "e.c")
            with open(path, "w") as f:
                f.write("\n".join(lines) + "\n")
            st, cb, logs, err = cbi.run_find(d, {"p": [cbi.entry(path, ["DEF=1"])]})
            stats["file_blocks"] += len(expect)
            if err is not None:
                fails.append(dict(layer="G", tags=["file", "exception"], symptom=f"exception:{err[0]}",
                                  detail=f"finder.find on a file of {len(expect)} probe blocks: {err[1]}", case=None))
            else:
                got = cbi.line_attr(st, path)
                for ln, want in expect.items():
                    if (ln in got and "p" in got[ln]) != want:
                        fails.append(dict(layer="G", tags=["file"], symptom="file-attribution-differs",
                                          detail=f"line {ln}: {lines[ln - 2]} / {lines[ln - 1]} want used={want}",
                                          case=dict(line=lines[ln - 2])))
                        break
        finally:
            shutil.rmtree(d, ignore_errors=True)
    # third surface: ONE directive evaluated for many platforms.  `#define E (P op Q)` / `#if E`: the operands
    # reach the expression only through the expansion of E; every platform supplies its own P and Q
    def is_lit(t):
        return t[0].isdigit() or t[0] == "'"
    bins = [case for case, ps in blocks if len(case["sp"]) == 3 and is_lit(case["sp"][0]) and is_lit(case["sp"][2])][:600]
    if bins:
        d = tempfile.mkdtemp(prefix="c02m-", dir=workdir)
        try:
            ops = sorted({c["sp"][1] for c in bins})
            files = {}
            for oi, op in enumerate(ops):
                path = os.path.join(d, f"op{oi}.c")
                with open(path, "w") as f:
                    f.write(f"#define E (P {op} Q)\n#if E\nint t;\n#else\nint e;\n#endif\n")
                files[op] = path
            conf = {}
            want = {}
            for i, c in enumerate(bins):
                name = f"c{i}"
                conf[name] = [cbi.entry(files[c["sp"][1]], [f"P={c['sp'][0]}", f"Q={c['sp'][2]}"])]
                want[name] = (files[c["sp"][1]], bool(c["truth"]), c)
            st, cb, logs, err = cbi.run_find(d, conf)
            stats["evals"] += len(conf)
            if err is not None:
                fails.append(dict(layer="G", tags=["file", "by-macro", "exception"], symptom=f"exception:{err[0]}",
                                  detail=f"finder.find, {len(conf)} platforms over {len(ops)} files `#define E (P op Q)`: {err[1]}",
                                  case=None))
            else:
                attr = {pth: cbi.line_attr(st, pth) for pth in files.values()}
                for name, (pth, truth, c) in want.items():
                    got_t = name in attr[pth].get(3, ())
                    got_e = name in attr[pth].get(5, ())
                    if (got_t, got_e) != (truth, not truth):
                        fails.append(dict(layer="G", tags=sorted(tags_of(c) | {"file", "by-macro"}), symptom="file-attribution-differs",
                                          detail=f"#define E (P {c['sp'][1]} Q) / #if E with -DP={c['sp'][0]} -DQ={c['sp'][2]} "
                                                 f"(one of {len(conf)} platforms on the same directive): then-line used={got_t}, "
                                                 f"else-line used={got_e}; ISO C truth {truth}", case=dict(case=c)))
                        break
        finally:
            shutil.rmtree(d, ignore_errors=True)
    return fails, stats


def _jobs(js):
    return [check_chunk(j) for j in js]


def gcc_validate(ctx, cases, limit, seed):
    rnd = random.Random(seed)
    pick = [c for c in cases]
    if len(pick) > limit:
        pick = rnd.sample(pick, limit)
    src = []
    for i, c in enumerate(pick):
        text, ps = probes(c)
        if not c["def"]:
            continue
        src.append(f"#if {ps[1][1]}\nok{i}\n#else\nbad{i}\n#endif")
        src.append(f"#if {ps[3][1]}\nsg{i}\n#else\nun{i}\n#endif")
    p = subprocess.run(["gcc", "-E", "-P", "-x", "c", "-DDEF=1", "-"], input="\n".join(src) + "\n",
                       capture_output=True, text=True)
    dis = 0
    n = 0
    out = set(p.stdout.split())
    for i, c in enumerate(pick):
        if not c["def"]:
            continue
        n += 1
        if f"ok{i}" not in out or ((f"sg{i}" in out) != (not c["u"])):
            dis += 1
    # undefined/diagnosed expressions: gcc must diagnose or we must not have claimed def
    ctx.cov["oracle_checks_gcc"] = ctx.cov.get("oracle_checks_gcc", 0) + n
    ctx.cov["oracle_disagreements"] += dis
    ctx.cov["gcc_stderr_lines"] = len(p.stderr.splitlines())
    if n and dis / n > 0.005:
        raise core.MachineryError(f"CExpr disagrees with gcc -E on {dis}/{n} sampled expressions; stderr: {p.stderr[:500]}")


def run(ctx):
    q = ctx.quick
    # ---- M ------------------------------------------------------------------------------
    r = core.tlc("MC_CInt", "MC_CInt16.cfg", workers=runner.NCPU, timeout=1200, tag="cint16")
    ctx.add_tlc("MC_CInt (16-bit boundary pairs vs native arithmetic)", r)
    if r.violation:
        ctx.model_violation("MC_CInt16", r)
    r = core.tlc("MC_CInt", "MC_CInt8q.cfg" if q else "MC_CInt8.cfg", workers=runner.NCPU, timeout=3000, tag="cint8")
    ctx.add_tlc("MC_CInt (8-bit, " + ("256 x 24 boundary" if q else "all 65536") + " pairs vs native arithmetic)", r)
    if r.violation:
        ctx.model_violation("MC_CInt8", r)
    # ---- G ------------------------------------------------------------------------------
    profiles = ["lit", "bin1", "bin2", "unq", "tern", "parq"] if q else ["lit", "bin1", "bin2t", "un", "tern", "par"]
    cases = []
    for pr in profiles:
        cs = runner.sharded_tlc(ctx, "GenCExpr", CFG.format(profile=pr, shard="@SHARD@", nshards="@NSHARDS@"), 16,
                                f"GenCExpr_{pr}", timeout=3000, heap="2g")
        cases += cs
    sim = runner.sharded_tlc(ctx, "GenCExpr", CFG.format(profile="sim", shard=0, nshards=1), 16,
                             "GenCExpr_sim", timeout=900, simulate=f"num={15 if q else 300}", depth=20,
                             seed=ctx.seed + 5, heap="2g")
    seen = set()
    allc = []
    for c in cases + sim:
        k = " ".join(c["sp"])
        if k not in seen:
            seen.add(k)
            allc.append(c)
    if not allc:
        raise core.MachineryError("no expressions generated")
    ctx.cov["rule"] = (
        "GenCExpr profiles exhaustively: every `a op b` over 14 boundary literals (0..255, INT64_MAX, 2^63u, UINT64_MAXu, "
        "0u, 1u) x 18 binary operators; every ordered pair of binary operators in `a op1 b op2 c`; unary chains; ?: with "
        "mixed signedness; parenthesised shapes; every literal spelling (bases 2/8/10/16 x suffixes, character constants "
        "with escapes) and defined/identifier forms with unary prefixes; plus TLC-simulated long expressions. Each "
        "well-defined expression (no UB, nothing gcc diagnoses) is probed 4 ways (truth, ==K, !=K, signedness) through "
        "IfNode.evaluate_for_platform, and (truth, ==K, #elif-after-taken) through finder.find on generated files. "
        "non-trivial = more than one token; evaluations = probes evaluated by the real code")
    ctx.cov["exhaustive"] = True
    ctx.cov["expressions"] = len(allc)
    for c in allc[len(allc) // 3: len(allc) // 3 + 3]:
        ctx.sample({"expr": " ".join(c["sp"]), "value": value_of(c), "unsigned": c["u"], "defined": c["def"]})
    gcc_validate(ctx, allc, 1500 if q else 20000, ctx.seed)
    work = ctx.scratch()
    jobs = [(c, ctx.seed, work) for c in runner.chunks(allc, runner.NCPU * 4)]
    res = runner.pmap(_jobs, jobs, chunk=1)
    for lst in res:
        for fails, stats in lst:
            ctx.cov["evaluations"] += stats["evals"] + stats["file_blocks"]
            ctx.cov["distinct_nontrivial"] += stats["nontrivial"]
            ctx.cov["undefined_excluded"] = ctx.cov.get("undefined_excluded", 0) + stats["undef"]
            for f in fails:
                ctx.fail(f["layer"], f["tags"], f["symptom"], f["detail"], f["case"])


def replay(ctx, path):
    import json
    c = json.load(open(os.path.join(path, "case.json")))
    print(json.dumps(c, indent=1)[:3000])
    pr = c["case"].get("probe") if c.get("case") else None
    if pr:
        print("real evaluator:", eval_real(pr))
    ctx.cov["evaluations"] = 1
