"""
C11 - -D/-I/-isystem/-include are extracted from any command line, robustly.

M  GenArgv invariant ScanSane on the reference scan (Argv.Scan): total, order preserving,
   unaffected by appending unmodelled options.
G  every argument vector of up to MaxLen pieces over the catalogue (recognised options in both
   spellings, values with = quotes spaces and a leading dash; ~40 real options CBI does not model,
   with and without separate values) + simulated long vectors: config.ArgumentParser(...).parse_args
   and config.load_database (arguments array and shell-quoted command string) are compared with
   what the reference scan extracts; no exception allowed.
"""
import json
import os
import re
import shlex
import shutil
import tempfile

from .. import cbi, core, runner, trace_cfg

CFG = """SPECIFICATION Spec
CONSTANTS
  Profile = "{profile}"
  MaxLen = {maxlen}
  Shard = {shard}
  NShards = {nshards}
CHECK_DEADLOCK FALSE
"""


def tags_of(argv):
    t = set()
    for i, a in enumerate(argv):
        if a in ("-g3", "-ggdb", "-ccbin", "-cxx-isystem"):
            t.add("argv.flag=" + a)
        if a.startswith("-g") and len(a) > 2:
            t.add("argv.g_with_suffix")
        if a == "-O":
            t.add("argv.bare_O")
        if a.startswith("-isystem") and len(a) > 8:
            t.add("argv.isystem_attached")
        if a.startswith("-include") and len(a) > 8:
            t.add("argv.include_attached")
        if a in ("-D", "-I", "-isystem", "-include") and i + 1 < len(argv) and argv[i + 1].startswith("-"):
            t.add("argv.value_with_leading_dash")
        if a == "--":
            t.add("argv.double_dash")
        if a.startswith("-o") and len(a) > 2:
            t.add("argv.o_attached")
        if a.startswith("-c") and len(a) > 2:
            t.add("argv.c_prefixed_flag")
        if a.startswith("@"):
            t.add("argv.response_file")
    return t


def check_chunk(args):
    cases, workdir, compilers = args
    import warnings
    warnings.simplefilter("ignore")
    from codebasin import config
    fails = []
    stats = {"evals": 0, "nontrivial": 0, "ill": 0}
    base = {}
    d = tempfile.mkdtemp(prefix="c11-", dir=workdir)
    src = os.path.join(d, "x.c")
    open(src, "w").write("int x;\n")
    try:
        for ci, case in enumerate(cases):
            core.tick(case, 300)
            if not case["ok"]:
                stats["ill"] += 1
                continue
            argv = case["argv"]
            want = (case["defines"], case["idirs"] + case["sysdirs"], case["forced"])
            if any(want):
                stats["nontrivial"] += 1
            tg = tags_of(argv)
            cc = compilers[ci % len(compilers)]
            stats["evals"] += 1
            try:
                # every 7th vector is also recorded (hook event ParseArgs) for validation by Trace_Cfg.tla
                with cbi.tracing(os.path.join(d, "pa.ndjson") if ci % 7 == 0 else None):
                    confs = config.ArgumentParser(cc).parse_args(list(argv))
                dflt = [c for c in confs if c.pass_name == "default"]
                got = (dflt[0].defines, dflt[0].include_paths, dflt[0].include_files) if dflt else None
            except BaseException as e:  # noqa
                if isinstance(e, (KeyboardInterrupt, SystemExit)):
                    raise
                fails.append(dict(layer="G", tags=sorted(tg | {"exception"}), symptom=f"exception:{type(e).__name__}",
                                  detail=f"{cc} {argv}: {e}", case=case))
                continue
            # a compiler's configured implicit options behave as if appended to the command line: the
            # command's own values come first, in order, followed by exactly the compiler's baseline
            if cc not in base:
                b = [c for c in config.ArgumentParser(cc).parse_args([]) if c.pass_name == "default"][0]
                base[cc] = (list(b.defines), list(b.include_paths), list(b.include_files))
            wantc = tuple(want[k] + base[cc][k] for k in range(3))
            if got is None or (list(got[0]), list(got[1]), list(got[2])) != wantc:
                fails.append(dict(layer="G", tags=sorted(tg), symptom="extraction-differs",
                                  detail=f"{cc} {argv}: defines={got and got[0]} include_paths={got and got[1]} "
                                         f"include_files={got and got[2]}; reference: {wantc}", case=case))
                continue
            # database entry: arguments array == shell-quoted command string == reference
            if ci % 3 == 0:
                full = [cc] + list(argv) + ["-c", "x.c"]
                res = []
                for form in ("arguments", "command", "command-backslash"):
                    ent = {"directory": d, "file": "x.c"}
                    if form == "arguments":
                        ent["arguments"] = full
                    elif form == "command":
                        ent["command"] = shlex.join(full)
                    else:
                        # the other POSIX-shell spelling: backslash escapes instead of quotes ('#' is escaped only where it
                        # would start a comment, i.e. at the beginning of a word)
                        ent["command"] = " ".join(re.sub(r"([^A-Za-z0-9_@%+=:,./#-]|^#)", r"\\\1", a) if a else "''" for a in full)
                    dbp = os.path.join(d, "cc.json")
                    with open(dbp, "w") as f:
                        json.dump([ent], f)
                    stats["evals"] += 1
                    try:
                        es = [e for e in config.load_database(dbp, d) if e["pass_name"] == "default"]
                        res.append((es[0]["defines"], es[0]["include_paths"], es[0]["include_files"]) if es else None)
                    except BaseException as e:  # noqa
                        if isinstance(e, (KeyboardInterrupt, SystemExit)):
                            raise
                        res.append(f"exception:{type(e).__name__}")
                wantdb = (wantc[0], [os.path.realpath(os.path.join(d, x)) for x in wantc[1]], wantc[2])
                if res[0] != res[1] or res[0] != res[2] or res[0] is None or isinstance(res[0], str) or \
                        (list(res[0][0]), list(res[0][1]), list(res[0][2])) != wantdb:
                    fails.append(dict(layer="G", tags=sorted(tg | {"database"}), symptom="database-entry-differs",
                                      detail=f"{full}: arguments-> {res[0]} command-> {res[1]} backslash-escaped command-> {res[2]} reference {wantdb}", case=case))
        pa = os.path.join(d, "pa.ndjson")
        if os.path.exists(pa):
            stats["cfg_events"] = trace_cfg.load_events(pa, "c11", limit=80)
        return fails, stats
    finally:
        shutil.rmtree(d, ignore_errors=True)


def _jobs(js):
    return [check_chunk(j) for j in js]


def run(ctx):
    q = ctx.quick
    os.makedirs(core.OUT, exist_ok=True)
    p = os.path.join(core.OUT, f"GenArgv_M_{os.getpid()}.cfg")
    open(p, "w").write(CFG.format(profile="small", maxlen=3, shard=1, nshards=1) + "INVARIANT ScanSane\n")
    try:
        r = core.tlc("GenArgv", p, workers=runner.NCPU, timeout=3000, tag="C11M")
    finally:
        os.unlink(p)
    ctx.add_tlc("GenArgv ScanSane (small catalogue, <= 3 pieces)", r)
    if r.violation:
        ctx.model_violation("GenArgv", r)
    cases = runner.sharded_tlc(ctx, "GenArgv", CFG.format(profile="small", maxlen=3 if q else 4, shard="@SHARD@",
                                                          nshards="@NSHARDS@"), 16, "GenArgv_small", timeout=3000)
    cases += runner.sharded_tlc(ctx, "GenArgv", CFG.format(profile="full", maxlen=2 if q else 3, shard="@SHARD@",
                                                           nshards="@NSHARDS@"), 16, "GenArgv_full", timeout=3000)
    sim = runner.sharded_tlc(ctx, "GenArgv", CFG.format(profile="full", maxlen=10, shard=0, nshards=1), 16, "GenArgv_sim",
                             timeout=900, simulate=f"num={60 if q else 1500}", depth=12, seed=ctx.seed + 3)
    seen, allc = set(), []
    for c in cases + sim:
        k = "\x00".join(c["argv"])
        if k not in seen:
            seen.add(k)
            allc.append(c)
    if not allc:
        raise core.MachineryError("no argument vectors generated")
    ctx.cov["rule"] = (
        "every argument vector of <= MaxLen pieces over 18 representative pieces and of <= 2 (quick) / 3 (thorough) pieces "
        "over the full catalogue (16 recognised-option spellings incl. values with '=', quotes, spaces, a leading dash, "
        "attached -isystem/-include; 40 unmodelled gcc/clang/icx/nvcc options incl. ones with separate values), plus "
        "simulated vectors of up to 10 pieces; Argv.Scan gives the expected defines / search directories / forced includes; "
        "compared with ArgumentParser(cc).parse_args for cc in gcc, clang, icx, nvcc, an unknown compiler, and with "
        "load_database on the arguments-array and shell-quoted command forms. non-trivial = something is extracted")
    ctx.cov["exhaustive"] = True
    ctx.cov["vectors"] = len(allc)
    ctx.sample(allc[len(allc) // 2])
    work = ctx.scratch()
    comps = ["gcc", "clang", "icx", "nvcc", "g++", "some-unknown-cc"]
    jobs = [(c, work, comps) for c in runner.chunks(allc, runner.NCPU * 3)]
    events = []
    for lst in runner.pmap(_jobs, jobs, chunk=1):
        for fails, stats in lst:
            ctx.cov["evaluations"] += stats["evals"]
            ctx.cov["distinct_nontrivial"] += stats["nontrivial"]
            ctx.cov["illformed_excluded"] = ctx.cov.get("illformed_excluded", 0) + stats["ill"]
            events.extend(stats.get("cfg_events", []))
            for f in fails:
                ctx.fail(f["layer"], f["tags"], f["symptom"], f["detail"], f["case"])
    # V: the recorded parse_args executions, judged by Trace_Cfg.tla (ArgvTok + CompilerCfg.Parse on the
    # built-in compiler definition that was in effect) - a second, independently written reference
    trace_cfg.validate(ctx, events, tag="C11cfg")


def replay(ctx, path):
    c = json.load(open(os.path.join(path, "case.json")))
    print(json.dumps(c, indent=1)[:3000])
    if c.get("case"):
        fails, _ = check_chunk(([c["case"]], ctx.scratch(), ["gcc"]))
        for f in fails:
            print("REPRODUCED:", f["symptom"], f["detail"])
            ctx.fail(f["layer"], f["tags"], f["symptom"], f["detail"], f["case"])
    ctx.cov["evaluations"] = 1
