"""
C01 - conditional inclusion matches a conforming preprocessor.

M  GenC01.tla: invariant ImplMatchesRef (CbiVisitor model == PreprocCore reference on every
   well-nested program up to the bound x all 25 -D assignments).
G  the same enumeration printed by TLC with the reference's expected attribution, rendered
   to C files and run through finder.find (25 configurations = 25 platforms per call).
   + TLC -simulate for larger programs; + gcc -E validates the reference on a sample.
V  Trace_Preproc (see vp/trace_preproc.py) on traces recorded from these runs.
"""
import os
import random
import re
import shutil
import subprocess
import sys
import tempfile

from .. import cbi, core, render, runner, trace_preproc

CFG = """SPECIFICATION Spec
CONSTANTS
  MaxDir = {maxdir}
  MaxNest = {maxnest}
  Shard = {shard}
  NShards = {nshards}
  EvalElifFirst = FALSE
  Rich = {rich}
  Skeleton = FALSE
CHECK_DEADLOCK FALSE
"""
INVS = "INVARIANT ImplMatchesRef\nINVARIANT RefTotal\nINVARIANT DefsOnlyWhereReached\n"


def tags_of(prog, cfg_a, cfg_b):
    t = set()
    kinds = [it["k"] for it in prog]
    for i, it in enumerate(prog):
        if it["k"] in ("if", "elif"):
            t.add(f"cond.{it['c']['t']}")
    if "elif" in kinds:
        t.add("has.elif")
    return t


def _defines(a, b, rnd):
    d = []
    if a != "U":
        d.append(render.define_arg("A", a, rnd))
    if b != "U":
        d.append(render.define_arg("B", b, rnd))
    return d


def expected_lines(lines_of, bits):
    exp = set()
    for i, bit in enumerate(bits):
        if bit:
            exp.update(lines_of[i])
    return exp


def gcc_check(text, lines_of, prog, defines, bits):
    """Validate the reference with gcc -E: returns None if consistent, else description."""
    # mark code lines with unique tokens
    p = subprocess.run(["gcc", "-E", "-P", "-x", "c", "-"] + [f"-D{d}" for d in defines],
                       input=text, capture_output=True, text=True)
    return p


def replay_chunk(args):
    """Worker: run a list of (case, seed, fortran) through the real code."""
    cases, seed, workdir, ext, want_trace, label = args
    fails = []
    stats = {"evals": 0, "nontrivial": 0, "ill": 0, "traces": []}
    d = tempfile.mkdtemp(prefix="c01-", dir=workdir)
    try:
        for ci, case in enumerate(cases):
            core.tick(case, 180)
            prog = case["prog"]
            rnd = random.Random(f"{seed}-{ci}-{len(prog)}")
            # some code items are left out: the file then begins / ends with a directive, and directives
            # follow each other without code in between
            codes = [i for i, it in enumerate(prog) if it["k"] == "code"]
            drop = set()
            edge = rnd.choice(["none", "first", "last", "both", "both"])
            if edge in ("first", "both"):
                drop.add(codes[0])
            if edge in ("last", "both"):
                drop.add(codes[-1])
            drop |= {i for i in codes[1:-1] if rnd.random() < 0.1}
            fchain = ext != ".c" and len(codes) >= 2 and rnd.random() < 0.5
            text, lines_of = render.render_c(prog, seed=rnd.random(), fortran=(ext != ".c"), drop=(() if fchain else drop),
                                             fchain=fchain)
            root = os.path.join(d, f"p{ci}")
            os.makedirs(root)
            path = os.path.join(root, "m" + ext)
            with open(path, "w") as f:
                f.write(text)
            conf = {}
            exp = {}
            for (a, b, ok, bits) in case["exp"]:
                if not ok:
                    stats["ill"] += 1
                    continue
                name = f"A{a or 'E'}_B{b or 'E'}"
                conf[name] = [cbi.entry(path, _defines(a, b, rnd))]
                exp[name] = expected_lines(lines_of, bits)
            if not conf:
                continue
            # platforms with SEVERAL commands for the file (same macro names, different values where the
            # enumeration has them): the platform uses a line iff one of its commands does
            oks = [(a, b, bits) for (a, b, ok, bits) in case["exp"] if ok]
            for k in range(3 if len(oks) >= 2 else 0):
                first = rnd.choice(oks)
                same = [o for o in oks if o is not first and (o[0] == "U") == (first[0] == "U") and (o[1] == "U") == (first[1] == "U")]
                pool = same if (same and k < 2) else [o for o in oks if o is not first]
                grp = [first] + rnd.sample(pool, min(len(pool), rnd.choice([1, 1, 2])))
                rnd.shuffle(grp)
                name = f"M{k}"
                conf[name] = [cbi.entry(path, _defines(a, b, rnd)) for a, b, _ in grp]
                u = set()
                for _, _, bits in grp:
                    u |= expected_lines(lines_of, bits)
                exp[name] = u
            stats["evals"] += len(conf)
            if len({frozenset(v) for v in exp.values()}) > 1:
                stats["nontrivial"] += 1
            trace_file = None
            if want_trace and ci % want_trace == 0:
                trace_file = os.path.join(root, "trace.ndjson")
            with cbi.tracing(trace_file):
                st, cb, logs, err = cbi.run_find(root, conf)
            base_tags = set()
            for it in prog:
                if it["k"] in ("if", "elif"):
                    base_tags.add(f"cond.{it['c']['t']}")
            if err is not None:
                # isolate: which configurations fail?
                for name in list(conf):
                    st1, _, _, e1 = cbi.run_find(root, {name: conf[name]})
                    if e1 is not None:
                        fails.append(dict(layer="G", tags=sorted(base_tags | {"exception"}),
                                          symptom=f"exception:{e1[0]}", detail=f"{e1[1]} | cfg={name}\n{text}",
                                          case=dict(prog=prog, cfg=name, text=text, defines=conf[name][0]["defines"])))
                continue
            got = cbi.line_attr(st, path)
            if "__dup__" in got:
                fails.append(dict(layer="G", tags=sorted(base_tags), symptom="line-counted-twice",
                                  detail=f"lines {got['__dup__']}\n{text}", case=dict(prog=prog, text=text)))
                got.pop("__dup__")
            all_lines = set()
            for ls in lines_of:
                all_lines.update(ls)
            if set(got) != all_lines:
                fails.append(dict(layer="G", tags=sorted(base_tags), symptom="counted-lines-differ",
                                  detail=f"counted={sorted(got)} expected={sorted(all_lines)}\n{text}",
                                  case=dict(prog=prog, text=text)))
                continue
            for name, e in exp.items():
                used = {ln for ln, ps in got.items() if name in ps}
                if used != e:
                    fails.append(dict(layer="G", tags=sorted(base_tags), symptom="attribution-differs",
                                      detail=f"cfg={name} defines={[e['defines'] for e in conf[name]]} extra={sorted(used - e)} "
                                             f"missing={sorted(e - used)}\n{text}",
                                      case=dict(prog=prog, cfg=name, text=text, defines=conf[name][0]["defines"],
                                                commands=[e["defines"] for e in conf[name]],
                                                expected=sorted(e), got=sorted(used))))
                    break
            if trace_file and os.path.exists(trace_file):
                stats["traces"].append((trace_file, f"{label}:{os.path.basename(d)}/p{ci}"))
            else:
                shutil.rmtree(root, ignore_errors=True)
        return fails, stats, d
    except Exception:
        shutil.rmtree(d, ignore_errors=True)
        raise


def _replay_jobs(js):
    return [replay_chunk(j) for j in js]


def gcc_validate(ctx, cases, limit, seed):
    """Three-way check of the reference itself: gcc -E must agree with ok and with code-line survival."""
    rnd = random.Random(seed)
    pick = cases if len(cases) <= limit else rnd.sample(cases, limit)
    dis = 0
    n = 0
    for case in pick:
        prog = case["prog"]
        text, lines_of = render.render_c(prog, seed=1, uid="mk")
        # plain rendering: each code item is one or two lines containing token mk<k>
        for (a, b, ok, bits) in rnd.sample(case["exp"], 3):
            defs = _defines(a, b, random.Random(0))
            p = subprocess.run(["gcc", "-E", "-P", "-x", "c", "-"] + [f"-D{d}" for d in defs],
                               input=text, capture_output=True, text=True)
            n += 1
            gcc_ok = (p.returncode == 0 and p.stderr.strip() == "")
            if gcc_ok != bool(ok):
                dis += 1
                continue
            if not ok:
                continue
            k = 0
            for i, it in enumerate(prog):
                if it["k"] == "code":
                    k += 1
                    present = re.search(rf"\bmk{k}\b", p.stdout) is not None
                    if present != bool(bits[i]):
                        dis += 1
                        break
    ctx.cov["oracle_checks_gcc"] = ctx.cov.get("oracle_checks_gcc", 0) + n
    ctx.cov["oracle_disagreements"] += dis
    if n and dis / n > 0.01:
        raise core.MachineryError(f"reference model disagrees with gcc -E on {dis}/{n} sampled cases")


def replay_all(ctx, cases, ext=".c", want_trace=0, label="G"):
    work = ctx.scratch()
    jobs = [(c, ctx.seed, work, ext, want_trace, label) for c in runner.chunks(cases, runner.NCPU * 3)]
    res = runner.pmap(_replay_jobs, jobs, chunk=1)
    traces = []
    dirs = []
    for lst in res:
        for fails, stats, d in lst:
            dirs.append(d)
            ctx.cov["evaluations"] += stats["evals"]
            ctx.cov["distinct_nontrivial"] += stats["nontrivial"]
            ctx.cov["illformed_configs_skipped"] = ctx.cov.get("illformed_configs_skipped", 0) + stats["ill"]
            traces.extend(stats["traces"])
            for f in fails:
                ctx.fail(f["layer"], f["tags"], f["symptom"], f["detail"], f["case"])
    return traces, dirs


def cli_cov(ctx, cases, n):
    """a sample of (program, configuration) pairs through `cbi-cov compute`"""
    import json
    from . import C06
    rnd = random.Random(ctx.seed)
    pick = rnd.sample(cases, min(n, len(cases)))
    work = tempfile.mkdtemp(prefix="c01cli-", dir=ctx.scratch())
    try:
        for ci, case in enumerate(pick):
            oks = [e for e in case["exp"] if e[2]]
            if not oks:
                continue
            a, b, ok, bits = rnd.choice(oks)
            d = os.path.join(work, f"p{ci}")
            os.makedirs(d)
            text, lines_of = render.render_c(case["prog"], seed=rnd.random())
            open(os.path.join(d, "m.c"), "w").write(text)
            defs = _defines(a, b, rnd)
            json.dump([{"directory": d, "file": "m.c", "arguments": ["gcc"] + ["-D" + x for x in defs] + ["-c", "m.c"]}],
                      open(os.path.join(d, "cc.json"), "w"))
            rc, out, err = C06.cli("codebasin.coverage", ["compute", "-S", d, "-o", os.path.join(d, "cov.json"),
                                                          os.path.join(d, "cc.json")], d)
            ctx.cov["evaluations"] += 1
            want = expected_lines(lines_of, bits)
            allc = set()
            for ls in lines_of:
                allc.update(ls)
            if rc != 0:
                ctx.fail("G", ["cli"], "cbi-cov-failed", f"defines={defs}: {out[-200:]}{err[-200:]}\n{text}")
                continue
            cov = {e["file"]: e for e in json.load(open(os.path.join(d, "cov.json")))}
            e = cov.get("m.c")
            if e is None or set(e["used_lines"]) != want or set(e["unused_lines"]) != allc - want:
                ctx.fail("G", ["cli"], "cbi-cov-lines-differ",
                         f"defines={defs}: cbi-cov used={e and e['used_lines']} expected {sorted(want)}\n{text}",
                         dict(prog=case["prog"], text=text, defines=defs))
    finally:
        shutil.rmtree(work, ignore_errors=True)


def suite_traces(ctx, dirs):
    """
    Run the repository's test suite (a scratch copy of the working tree, hooks on) and return its
    trace: every finder.find execution of the suite is then validated event by event, which is a far
    stronger assertion than the totals the tests compare.
    """
    work = tempfile.mkdtemp(prefix="suite-", dir=ctx.scratch())
    dirs.append(work)
    dst = os.path.join(work, "repo")
    shutil.copytree(core.repo_path(), dst, symlinks=True,
                    ignore=shutil.ignore_patterns(".git", "__pycache__", "docs", "*.egg-info", "cbi.log"))
    tf = os.path.join(work, "suite.ndjson")
    env = dict(os.environ, CBI_VERIF="1", CBI_VERIF_TRACE=tf, PYTHONPATH=dst, PYTHONDONTWRITEBYTECODE="1")
    p = subprocess.run([sys.executable, "-m", "pytest", "-q", "-p", "no:cacheprovider", "tests"], cwd=dst, env=env,
                       capture_output=True, text=True, timeout=900)
    ctx.cov["suite_run"] = (p.stdout.strip().splitlines() or [""])[-1]
    if not os.path.exists(tf):
        raise core.MachineryError("the test suite produced no trace (hooks missing?): " + p.stdout[-300:])
    return [(tf, "suite")]


def run(ctx):
    q = ctx.quick
    maxdir, maxnest = (4, 2) if q else (5, 3)
    # ---- M: design check --------------------------------------------------------------
    cfgm = CFG.format(maxdir=maxdir, maxnest=maxnest, shard=0, nshards=1, rich="FALSE") + INVS
    p = os.path.join(core.OUT, f"GenC01_M_{os.getpid()}.cfg")
    os.makedirs(core.OUT, exist_ok=True)
    open(p, "w").write(cfgm.replace("Emit", "Emit"))
    try:
        r = core.tlc("GenC01", p, workers=runner.NCPU, timeout=3000, tag="C01M", heap="6g",
                     extra=["-lncheck", "final"] if False else [])
    finally:
        os.unlink(p)
    # printing in the M run is harmless but wasteful; Shard=0/NShards=1 prints all: ignore r.json
    ctx.add_tlc("MC_C01 (CbiVisitor x PreprocCore, all programs x 25 configs)", r,
                note=f"MaxDir={maxdir} MaxNest={maxnest}")
    if r.violation:
        ctx.model_violation("MC_C01", r)
    cases_m = r.json
    # ---- G: exhaustive replay -----------------------------------------------------------
    cases = cases_m
    if not cases:
        raise core.MachineryError("generator printed no cases")
    ctx.cov["rule"] = (
        "every well-nested single-file program with <= MaxDir directives (if/ifdef/ifndef/elif/else/endif/"
        "define/undef over macros A,B; 7 condition shapes), nesting <= MaxNest, one code marker after every "
        "directive, x all 25 assignments of -DA/-DB in {undefined, empty, 0, 1, 2}; TLC prints the reference "
        "attribution, the harness renders each program with seed-dependent spelling/decoration and compares "
        "finder.find per physical line.  non-trivial = at least two configurations get different line sets; "
        "evaluations = (program, configuration) pairs accepted by the reference (gcc would not diagnose)")
    ctx.cov["exhaustive"] = True
    ctx.cov["bounds"] = {"MaxDir": maxdir, "MaxNest": maxnest}
    ctx.sample({"program": cases[len(cases) // 2]["prog"], "expected[A,B,ok,attr-bits]": cases[len(cases) // 2]["exp"][:3]})
    gcc_validate(ctx, cases, 120 if q else 1500, ctx.seed)
    traces, dirs = replay_all(ctx, cases, want_trace=(40 if q else 15))
    # ---- G2: rich conditions (incl. expressions that must NOT be evaluated) --------------
    cfgr = CFG.format(maxdir=3 if q else 4, maxnest=2, shard="@SHARD@", nshards="@NSHARDS@", rich="TRUE")
    rich = runner.sharded_tlc(ctx, "GenC01", cfgr, 8 if q else 16, "GenC01_rich", timeout=3000)
    traces2, dirs2 = replay_all(ctx, rich, want_trace=(60 if q else 20))
    traces += traces2
    dirs += dirs2
    # ---- G3: larger programs by simulation ------------------------------------------------
    # skeleton programs: constant conditions only, no definitions - every chain STRUCTURE of up to 6 (7) directives
    # and nesting 3, e.g. an #elif chain nested in a taken group of a chain that still has an #else to come
    cfgk = CFG.format(maxdir=6 if q else 7, maxnest=3, shard="@SHARD@", nshards="@NSHARDS@", rich="FALSE") \
        .replace("Skeleton = FALSE", "Skeleton = TRUE")
    skel = runner.sharded_tlc(ctx, "GenC01", cfgk, 8, "GenC01_skeleton", timeout=3000)
    ctx.cov["skeleton_programs"] = len(skel)
    traces4, dirs4 = replay_all(ctx, skel, want_trace=(200 if q else 100), label="skeleton")
    traces += traces4
    dirs += dirs4
    cfgs = CFG.format(maxdir=12 if q else 16, maxnest=4, shard=0, nshards=1, rich="TRUE")
    sim = runner.sharded_tlc(ctx, "GenC01", cfgs, 8 if q else 16, "GenC01_sim", timeout=600,
                             simulate=f"num={10 if q else 100}", depth=40, seed=ctx.seed + 1)
    seen = set()
    simc = []
    for c in sim:
        key = repr(c["prog"])
        if key not in seen:
            seen.add(key)
            simc.append(c)
    ctx.cov["simulated_programs"] = len(simc)
    traces3, dirs3 = replay_all(ctx, simc, want_trace=(10 if q else 5))
    traces += traces3
    dirs += dirs3
    # ---- the same expectation through the cbi-cov front end (used_lines / unused_lines) ------------
    cli_cov(ctx, cases, 12 if q else 80)
    # ---- V on the repository's own test suite: its executions, judged by the specification -----
    traces += suite_traces(ctx, dirs)
    # ---- V: trace validation ---------------------------------------------------------------
    try:
        trace_preproc.validate(ctx, traces)
    finally:
        for d in dirs:
            shutil.rmtree(d, ignore_errors=True)


def replay(ctx, path):
    import json
    with open(os.path.join(path, "case.json")) as f:
        c = json.load(f)
    print(json.dumps(c, indent=1)[:4000])
    case = c["case"]
    if case and "text" in case and "defines" in case:
        d = tempfile.mkdtemp()
        fn = os.path.join(d, "m.c")
        open(fn, "w").write(case["text"])
        st, cb, logs, err = cbi.run_find(d, {"p": [cbi.entry(fn, ds) for ds in case.get("commands", [case["defines"]])]})
        print("error:", err)
        if st:
            used = sorted(k for k, v in cbi.line_attr(st, fn).items() if k != "__dup__" and "p" in v)
            print("used lines:", used)
            if "expected" in case and used != case["expected"]:
                print("REPRODUCED: expected", case["expected"])
                ctx.fail("G", c.get("tags", []), c.get("symptom", "attribution-differs"), f"used={used} expected={case['expected']}", case)
        shutil.rmtree(d)
    ctx.cov["evaluations"] = 1
