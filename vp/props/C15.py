"""
C15 - each physical file is parsed and counted once, however it is reached.

M  GenAlias.tla + FileSys.tla: for every set of symbolic links of the catalogue (file links,
   directory links, link to an ancestor, link to a directory outside the code base, link whose
   parent differs from its target's parent, link to a link) every generated alias spelling
   (through links, "." segments, "dir/.." detours through real directories AND through directory
   links) resolves - realpath semantics - to its canonical target (AliasesResolve), resolution is
   idempotent; lexical normalisation is shown NOT to be a substitute.
G  GenScen scenarios x GenAlias link sets: the canonical tree is decorated with the links; compile
   commands name their file and their -I directories through TLC-generated alias spellings; the
   result must equal the canonical twin: per-line attribution on the physical files, get_setmap
   (links to in-base targets add nothing, paths whose target is outside are not members), the
   enumerated code base, and the tree report's root figures.
"""
import copy
import io
import json
import os
import random
import shutil

from .. import cbi, core, render, runner, scen, trace_preproc
from . import C04, C10


def real(base, p):
    return os.path.join(base, *p[1:]) if p and p[0] == "B" else os.path.join("/", *p)


def decorate(m, links):
    made = []
    for name in sorted(links):
        lp = real(m.base, links[name]["lp"])
        tp = real(m.base, links[name]["tp"])
        os.makedirs(os.path.dirname(lp), exist_ok=True)
        if not os.path.lexists(lp):
            os.symlink(tp, lp)
            made.append((lp, tp))
    return made


def spell(m, al, key, rnd):
    opts = al["spell"][key]
    return real(m.base, rnd.choice(opts))


DIRKEY = {"src": "src", "inc": "inc", "sys": "sys", "bld": "bld", "ext": "ext"}
FILEKEY = {"src/m1.c": "m1", "src/m2.c": "m2"}


def scen_order(e):
    """search order of an entry's include directories: -I first, then -isystem"""
    return [r for r in e["idirs"] if not r["sys"]] + [r for r in e["idirs"] if r["sys"]]


def replay_chunk(args):
    pairs, seed, workdir = args
    fails = []
    stats = {"evals": 0, "nontrivial": 0, "skipped": 0}
    for si, pair in enumerate(pairs):
        sc, al = pair[0], pair[1]
        hdrlink = pair[2] if len(pair) > 2 else (si % 2 == 0)
        core.tick(sc, 600)
        tags = scen.features(sc) | {"c15"} | {"link." + l for l in al["links"]}
        if not scen.well_formed(sc) or any(r["warns"] for r in sc["res"]) or "argv.forced_name_beside_main" in tags:
            stats["skipped"] += 1
            continue
        base = scen.new_base(workdir)
        try:
            rnd = random.Random(f"{seed}-{si}")
            if hdrlink:
                # name-level aliases: some #include directives name h.h through a link hl.h -> h.h that stands
                # beside every h.h (so the search finds it in exactly the same directory; one physical file)
                sc = copy.deepcopy(sc)
                for f in sc["files"].values():
                    for it in f["items"]:
                        if it["k"] == "include" and it["name"] == "h.h" and rnd.random() < 0.6:
                            it["name"] = "hl.h"
                tags = tags | {"link.header_name"}
            m = scen.Mat(sc, base, dotted=True, seed=rnd.random())
            for fid, f in sc["files"].items():
                if f["name"] == "h.h" and "link.header_name" in tags:
                    os.symlink("h.h", os.path.join(os.path.dirname(m.paths[fid]), "hl.h"))
            for d in ("deep", "build", "sys/include", "src", "src/sub", "inc"):
                os.makedirs(os.path.join(m.root, d), exist_ok=True)
            os.makedirs(m.extdir, exist_ok=True)
            made = decorate(m, al["links"])
            outs = [p for f, p in m.paths.items() if not C10.inside(m, f)]
            if outs and al["links"]:
                lp = os.path.join(m.root, "inc", "out_alias.h")
                os.symlink(outs[0], lp)
                made.append((lp, outs[0]))
            byp = scen.ents_by_plat(sc)
            plats = sorted(byp)
            exp = scen.expected_by_plat(m, sc)
            used_alias = False

            def spell_dir(d):
                nonlocal used_alias
                s = spell(m, al, DIRKEY[d], rnd)
                used_alias = used_alias or os.path.normpath(s) != m.dir_path(d) or s != m.dir_path(d)
                return s

            def spell_file(fid):
                return spell(m, al, FILEKEY[fid], rnd) if fid in FILEKEY else m.paths[fid]

            stats["evals"] += 1
            try:
                conf = m.load_configuration(byp, rnd, spell_dir=spell_dir, spell_file=spell_file)
            except Exception as e:  # noqa
                fails.append(dict(layer="G", tags=sorted(tags | {"exception"}), symptom=f"exception:{type(e).__name__}",
                                  detail=f"load_database: {e}", case={"scen": sc, "alias": al}))
                continue
            if al["links"]:
                stats["nontrivial"] += 1
            if si % 3 == 0:
                st, cb, logs, err, trs = cbi.run_find_traced(m.root, conf, base, f"c15:{si}")
                stats.setdefault("traces", []).extend(trs)
            else:
                st, cb, logs, err = cbi.run_find(m.root, conf)
            if err is not None:
                fails.append(dict(layer="G", tags=sorted(tags | {"exception"}), symptom=f"exception:{err[0]}",
                                  detail=f"{err[1]}\n{err[2]}", case={"scen": sc, "alias": al}))
                continue
            d = scen.compare(m, sc, st, exp)
            # the same through finder.find's own surface: entries that name their file and include
            # directories by alias spellings directly (not canonicalised by load_database)
            direct = {}
            for plat, ents in byp.items():
                direct[plat] = []
                for e in ents:
                    defs = scen.x_defs(e) + [scen.XSTR_DEF] + \
                           (["HDR=" + render.val_text(e["hdr"])] if e.get("hdr", "U") != "U" else [])
                    # (-include is looked up beside the main file as spelled - C04's recorded finding - so
                    # entries with forced includes keep the canonical spelling of their file here)
                    direct[plat].append(cbi.entry(m.paths[e["file"]] if e["forced"] else spell_file(e["file"]), defs,
                                                  [spell_dir(r["d"]) for r in scen_order(e)], list(e["forced"])))
            st2, cb2, logs2, err2 = cbi.run_find(m.root, direct)
            stats["evals"] += 1
            if err2 is not None:
                d.append(f"finder.find with alias-spelled entries raised {err2[0]}: {err2[1]}")
            else:
                d += scen.compare(m, sc, st2, exp, label="direct entries: ")
                sm2 = {k: v for k, v in st2.get_setmap(cb2).items() if v}
                want2 = {k: v for k, v in C10.expected_setmap(m, exp, plats, set()).items() if v}
                if sm2 != want2:
                    d.append(f"direct entries: get_setmap { {tuple(sorted(k)): v for k, v in sm2.items()} } != canonical twin")
            sm = {k: v for k, v in st.get_setmap(cb).items() if v}
            want = {k: v for k, v in C10.expected_setmap(m, exp, plats, set()).items() if v}
            if sm != want:
                d.append(f"get_setmap { {tuple(sorted(k)): v for k, v in sm.items()} } != canonical twin "
                         f"{ {tuple(sorted(k)): v for k, v in want.items()} }")
            # members: every listed path resolves inside the root; every canonical member is listed
            listed = list(cb)
            rroot = os.path.realpath(m.root) + os.sep
            outside = [p for p in listed if not os.path.realpath(p).startswith(rroot)]
            if outside:
                d.append(f"code base lists paths whose target is outside the root: {outside}")
            canon = {m.paths[f] for f in m.paths if C10.inside(m, f)}
            if not canon <= {os.path.realpath(p) for p in listed}:
                d.append("a canonical member file is not enumerated")
            # a path whose target lies outside the root is not a member, however it is spelled
            for fid, path in m.paths.items():
                if not C10.inside(m, fid):
                    for sp in al["spell"]["ext"][:8]:
                        cand = os.path.join(real(m.base, sp), os.path.basename(path))
                        if os.path.exists(cand) and cand in cb:
                            d.append(f"{cand} (target outside the root) reported as a member")
                            break
            # membership is spelling independent
            for fid, key in FILEKEY.items():
                if fid in m.paths:
                    for sp in al["spell"][key][:6]:
                        if (real(m.base, sp) in cb) is not True:
                            d.append(f"membership of {fid} denied through spelling {real(m.base, sp)}")
                            break
            # tree report: the root row must show the canonical total
            from codebasin import report
            buf = io.StringIO()
            try:
                report.files(cb, st, stream=buf)
                from . import C06
                legend, rows = C06.parse_tree(buf.getvalue())
                tot = sum(want.values())
                if () in rows and rows[()][1] != str(tot):
                    d.append(f"tree root SLOC {rows[()][1]} != canonical total {tot}")
                # every directory row = sum of the real files beneath it (links excluded)
                for path, r in rows.items():
                    if path and not r[4]:
                        sub = os.path.join(m.root, *path)
                        if os.path.isdir(sub) and not os.path.islink(sub):
                            n = 0
                            for fid in m.paths:
                                if C10.inside(m, fid) and m.paths[fid].startswith(os.path.realpath(sub) + os.sep):
                                    n += len(m.all_lines(fid))
                            if r[1] != str(n):
                                d.append(f"tree row {'/'.join(path)} SLOC {r[1]} != {n} (sum of real files beneath)")
            except Exception as e:  # noqa
                d.append(f"report.files raised {type(e).__name__}: {e}")
            if d:
                fails.append(dict(layer="G", tags=sorted(tags), symptom="alias-changes-result",
                                  detail="; ".join(d[:6]) + f"\nlinks={made}\nentries={[ (e['file'], e['include_paths']) for p in conf for e in conf[p]]}",
                                  case={"scen": sc, "alias": al}))
        finally:
            shutil.rmtree(base, ignore_errors=True)
    return fails, stats


def _jobs(js):
    return [replay_chunk(j) for j in js]


def run(ctx):
    q = ctx.quick
    r = core.tlc("GenAlias", "GenAlias.cfg", workers=4, timeout=900, tag="aliasM")
    ctx.add_tlc("GenAlias AliasesResolve/ResolveIdempotent (every link set)", r)
    if r.violation:
        ctx.model_violation("GenAlias", r)
    aliases = [j for j in r.json if isinstance(j, dict) and "spell" in j]
    if not aliases:
        raise core.MachineryError("no alias sets generated")
    scens = runner.sharded_tlc(ctx, "GenScen", C04.CFG.format(profile="sim", shard=0, nshards=1), 16, "GenScen_sim",
                               timeout=900, simulate=f"num={100 if q else 800}", depth=40, seed=ctx.seed + 41)
    scens = C04.dedup(scens)
    ctx.cov["scenarios_generated"] = len(scens)
    # aliasing is judged on scenarios whose every include resolves (so that the canonical twin is warning-free)
    scens = [sc for sc in scens if scen.well_formed(sc) and not any(r["warns"] for r in sc["res"])
             and "argv.forced_name_beside_main" not in scen.features(sc)][:(160 if q else 4000)]
    rnd = random.Random(ctx.seed)
    pairs = []
    for i, sc in enumerate(scens):
        pairs.append((sc, aliases[(i * 7 + ctx.seed) % len(aliases)]))
        if not q:
            pairs.append((sc, rnd.choice(aliases)))
    pairs = [(sc, al, bool(al["links"]) and i % 2 == 0) for i, (sc, al) in enumerate(pairs)]
    # re-inclusion scenarios (profile c04g, exhaustive: guarded / #pragma once / plain headers included up to three
    # times with the guard macros undefined in between): the later inclusions name the header through a link
    g = runner.sharded_tlc(ctx, "GenScen", C04.CFG.format(profile="c04g", shard="@SHARD@", nshards="@NSHARDS@"), 8,
                           "GenScen_c04g", timeout=900)
    g = [sc for sc in C04.dedup(g) if scen.well_formed(sc) and not any(r["warns"] for r in sc["res"])
         and sum(1 for it in sc["files"]["src/m1.c"]["items"] if it["k"] == "include") >= 2]
    rnd.shuffle(g)
    g = g[:(150 if q else 2000)]
    ctx.cov["reinclusion_scenarios"] = len(g)
    pairs += [(sc, aliases[(i * 5 + ctx.seed) % len(aliases)], True) for i, sc in enumerate(g)]
    ctx.cov["rule"] = (
        "TLC-simulated GenScen scenarios paired with GenAlias link sets (all 192 subsets of 8 links are generated and "
        "verified by TLC; each scenario gets one or two of them): compile commands spell their source file and every -I "
        "directory through a random TLC-generated alias spelling; per-line attribution on the physical files, get_setmap, "
        "code-base enumeration/membership through every spelling, and the tree report's directory figures are compared "
        "with the canonical twin (same scenario, no links, canonical paths) as given by the reference. "
        "non-trivial = at least one link is present")
    ctx.cov["alias_sets"] = len(aliases)
    ctx.cov["pairs"] = len(pairs)
    ctx.sample({"links": aliases[len(aliases) // 2]["links"], "spellings_of_m1": aliases[len(aliases) // 2]["spell"]["m1"][:5]})
    work = ctx.scratch()
    loaded = []
    jobs = [(c, ctx.seed, work) for c in runner.chunks(pairs, runner.NCPU * 2)]
    for lst in runner.pmap(_jobs, jobs, chunk=1):
        for fails, stats in lst:
            ctx.cov["evaluations"] += stats["evals"]
            ctx.cov["distinct_nontrivial"] += stats["nontrivial"]
            ctx.cov["skipped"] = ctx.cov.get("skipped", 0) + stats["skipped"]
            loaded.extend(stats.get("traces", []))
            for f in fails:
                ctx.fail(f["layer"], f["tags"], f["symptom"], f["detail"], f["case"])
    trace_preproc.validate(ctx, [], tag="C15", loaded=loaded)


def replay(ctx, path):
    c = json.load(open(os.path.join(path, "case.json")))
    print(json.dumps(c, indent=1)[:4000])
    if c.get("case"):
        fails, _ = replay_chunk(([(c["case"]["scen"], c["case"]["alias"])], ctx.seed, ctx.scratch()))
        for f in fails:
            print("REPRODUCED:", f["symptom"], f["detail"][:2000])
            ctx.fail(f["layer"], f["tags"], f["symptom"], f["detail"], f["case"])
    ctx.cov["evaluations"] = 1
