"""
C06 - every counted line lands in exactly one platform set; all reports agree.

M  GenScen profile c06, invariant ReportLaws: on the attribution of every generated scenario
   (and on the empty, zero-platform attribution) the Reports.tla identities hold: rows partition
   the lines, directory = sum of children, root = summary, prune drops exactly unused files,
   used/unused partition.
G  each scenario is materialised (one physical line per item, nested directories, unused files,
   a header outside the root, file symlinks at the root and below) and the THREE front ends are
   run on the same input: `codebasin -R summary`, `cbi-tree` (plain, --prune, -L 1, -L 2),
   `cbi-cov compute` per platform, plus the zero-platform analysis; every output is parsed back
   into the Reports vocabulary and compared with what Reports.tla says it must be, and with the
   in-process get_setmap.
"""
import json
import os
import random
import re
import shutil
import subprocess
import sys
from fractions import Fraction

from .. import cbi, core, runner, scen
from . import C04

SUM_ROW = re.compile(r"\{([^}]*)\}\s*[^\d\s]\s*(\d+)\s*[^\d\s]\s*([\d.]+)")
TREE_ROW = re.compile(r"^\[([A-Z-]*) \|\s*(\S+) \|\s*(\S+) \|\s*(\S+)\] (.*)$")


def cli(mod, args, cwd, trace=None):
    """run a front end in a fresh interpreter; with `trace`, the CBI_VERIF hooks write their events there"""
    env = dict(os.environ, PYTHONPATH=core.repo_path())
    env.pop("CBI_VERIF", None)
    env.pop("CBI_VERIF_TRACE", None)
    if trace:
        env["CBI_VERIF"] = "1"
        env["CBI_VERIF_TRACE"] = trace
    r = core.run_impl([sys.executable, "-m", mod] + args, 180, cwd=cwd, env=env, capture_output=True, text=True)
    return r.returncode, r.stdout, r.stderr


def parse_summary(out):
    rows = {}
    for mt in SUM_ROW.finditer(out):
        rows[frozenset(x.strip() for x in mt.group(1).split(",") if x.strip())] = (int(mt.group(2)), float(mt.group(3)))
    tot = re.search(r"^Total SLOC: (\d+)$", out, re.M)
    return rows, (int(tot.group(1)) if tot else None)


def parse_tree(out):
    """-> legend {label: platform}, rows {path tuple: (labels, sloc, cov, avg, is_link)}"""
    legend = {}
    for mt in re.finditer(r"^([A-Z]): (\S+)$", out, re.M):
        legend[mt.group(1)] = mt.group(2)
    rows = {}
    stack = []
    for line in out.splitlines():
        mt = TREE_ROW.match(line)
        if not mt:
            continue
        labels, sloc, cov, avg, rest = mt.groups()
        if rest.startswith("o "):
            depth = 0
            name = ""
        else:
            m2 = re.match(r"^((?:\| |  )*)(?:\||\\)-[o-] (.*)$", rest)
            if not m2:
                continue
            depth = len(m2.group(1)) // 2 + 1
            name = m2.group(2)
        is_link = " -> " in name
        if is_link:
            name = name.split(" -> ")[0]
        name = name.rstrip("/")
        stack = stack[: max(0, depth - 1)]
        if depth > 0:
            stack.append(name)
        rows[tuple(stack) if depth > 0 else ()] = (labels, sloc, cov, avg, is_link)
    return legend, rows


def fnum(r):
    return None if r[1] == 0 else float(Fraction(r[0], r[1]))


def near(txt, want):
    if want is None:
        return txt == "nan"
    try:
        return abs(float(txt) - want) <= 0.005 + 1e-9
    except ValueError:
        return False


def check_tree(out, exp_tree, plats_sorted, what, levels=None, links=()):
    errs = []
    legend, rows = parse_tree(out)
    exp = {tuple(e["path"]): e for e in exp_tree}
    if not exp:
        exp = {(): {"path": [], "sloc": 0, "plats": [], "cov": [0, 0], "avg": [0, 0]}}
    root_plats = sorted(exp[()]["plats"]) if () in exp else []
    want_legend = {chr(ord("A") + i): p for i, p in enumerate(root_plats)}
    if legend != want_legend:
        errs.append(f"{what}: legend {legend} != {want_legend}")
    for path, e in exp.items():
        if levels is not None and len(path) > levels:
            if path in rows:
                errs.append(f"{what}: row {path} printed beyond -L {levels}")
            continue
        if path not in rows:
            errs.append(f"{what}: row {'/'.join(path) or '<root>'} missing")
            continue
        labels, sloc, cov, avg, is_link = rows[path]
        want_labels = "".join(chr(ord("A") + i) if p in e["plats"] else "-" for i, p in enumerate(root_plats))
        if labels != want_labels:
            errs.append(f"{what}: {'/'.join(path) or '<root>'} labels {labels!r} != {want_labels!r}")
        if sloc != str(e["sloc"]):
            errs.append(f"{what}: {'/'.join(path) or '<root>'} SLOC {sloc} != {e['sloc']}")
        if not near(cov, fnum(e["cov"])) or not near(avg, fnum(e["avg"])):
            errs.append(f"{what}: {'/'.join(path) or '<root>'} coverage {cov}/{avg} != {fnum(e['cov'])}/{fnum(e['avg'])}")
    linkpaths = [pth for pth, r in rows.items() if r[4]]
    for path, r in rows.items():
        if path not in exp and not r[4]:
            # a directory that is listed only because it holds a symlink row is not an error
            if any(tuple(lp[:len(path)]) == path for lp in list(linkpaths) + list(links)):
                continue
            errs.append(f"{what}: unexpected row {'/'.join(path)}")
    return errs


def replay_chunk(args):
    scens, seed, workdir = args
    fails = []
    stats = {"evals": 0, "nontrivial": 0, "skipped": 0}
    for si, sc in enumerate(scens):
        core.tick(sc, 900)
        if not scen.well_formed(sc) or any(r["warns"] for r in sc["res"]) or \
                "argv.forced_name_beside_main" in scen.features(sc):
            stats["skipped"] += 1
            continue
        base = scen.new_base(workdir)
        try:
            rnd = random.Random(f"{seed}-{si}")
            # every third scenario keeps one main and one header with DOS line endings (same lines, other bytes)
            m = scen.Mat(sc, base, seed=0, plain=True, crlf=({"src/m2.c", "inc/h.h"} if si % 3 == 0 else ()),
                         # every other scenario: directives whose trailing comment ends on the next physical line (one
                         # COUNTED line per item still, so the expected figures are the same)
                         spill=(si % 2 == 1))
            tags = scen.features(sc) | {"c06"}
            # symlinks: one at the root, one below it, both to a member file
            main = m.paths["src/m1.c"]
            links = []
            if rnd.random() < 0.8:
                os.symlink(main, os.path.join(m.root, "zlink.c"))
                os.makedirs(os.path.join(m.root, "inc"), exist_ok=True)
                os.symlink(os.path.relpath(main, os.path.join(m.root, "inc")), os.path.join(m.root, "inc", "alias.c"))
                tags.add("fs.symlinks")
            byp = scen.ents_by_plat(sc)
            plats = sorted(byp)
            dbs = {}
            for p in plats:
                dbp = os.path.join(base, f"db_{p}.json")
                with open(dbp, "w") as f:
                    json.dump(m.database(byp[p], rnd), f)
                dbs[p] = dbp
            toml = os.path.join(base, "analysis.toml")
            with open(toml, "w") as f:
                for p in rnd.sample(plats, len(plats)):
                    f.write(f'[platform.{p}]\ncommands = "{dbs[p]}"\n\n')
            toml0 = os.path.join(base, "none.toml")
            with open(toml0, "w") as f:
                f.write("[codebase]\nexclude = []\n")
            errs = []
            rep = sc["rep"]
            if len(rep["setmap"]) > 1:
                stats["nontrivial"] += 1

            def summary_check(tomlp, r, what):
                # every fourth scenario: the front end runs with the hooks on and its trace is validated (V)
                tf = os.path.join(base, "cli_trace.ndjson") if (si % 4 == 0 and what == "summary") else None
                rc, out, err = cli("codebasin", ["-R", "summary", tomlp], m.root, trace=tf)
                if tf and os.path.exists(tf):
                    from .. import trace_preproc
                    stats.setdefault("traces", []).extend(trace_preproc.load_trace_file(tf, f"c06cli:{si}"))
                    os.unlink(tf)
                stats["evals"] += 1
                if rc != 0:
                    return [f"{what}: codebasin exited {rc}: {out[-300:]}{err[-300:]}"]
                rows, tot = parse_summary(out)
                want = {frozenset(e["k"]): e["n"] for e in r["setmap"] if e["n"]}
                e2 = []
                if {k: v[0] for k, v in rows.items() if v[0]} != want:
                    e2.append(f"{what}: summary rows { {tuple(sorted(k)): v[0] for k, v in rows.items()} } != "
                              f"{ {tuple(sorted(k)): v for k, v in want.items()} }")
                if tot != r["total"]:
                    e2.append(f"{what}: Total SLOC {tot} != {r['total']}")
                for k, (n, pct) in rows.items():
                    if r["total"] and abs(pct - 100.0 * n / r["total"]) > 0.005 + 1e-9:
                        e2.append(f"{what}: % LOC of {sorted(k)} is {pct}")
                return e2

            # quick tier: the scenarios of the exhaustive profile go through the main views only (the -L / zero-platform
            # variants are exercised by the sampled profile)
            light = bool(sc.get("light"))
            errs += summary_check(toml, rep, "summary")
            if not light:
                errs += summary_check(toml0, sc["rep0"], "summary(0 platforms)")
            for argv, tree, lv, what in ((["analysis.toml"], rep["tree"], None, "tree"),
                                         (["--prune", "analysis.toml"], rep["ptree"], None, "tree --prune"),
                                         (["-L", "1", "analysis.toml"], rep["tree"], 1, "tree -L 1"),
                                         (["-L", "2", "--prune", "analysis.toml"], rep["ptree"], 2, "tree -L 2 --prune"),
                                         (["none.toml"], sc["rep0"]["tree"], None, "tree(0 platforms)")):
                if light and what not in ("tree", "tree --prune"):
                    continue
                argv = [os.path.join(base, a) if a.endswith(".toml") else a for a in argv]
                rc, out, err = cli("codebasin.tree", argv, m.root)
                stats["evals"] += 1
                if rc != 0:
                    errs.append(f"{what}: cbi-tree exited {rc}: {out[-300:]}{err[-300:]}")
                    continue
                errs += check_tree(out, tree, plats, what, levels=lv, links=[("zlink.c",), ("inc", "alias.c")])
            # coverage export, one platform at a time
            exp = scen.expected_by_plat(m, sc)
            for p in plats[:2]:
                covp = os.path.join(base, f"cov_{p}.json")
                rc, out, err = cli("codebasin.coverage", ["compute", "-S", m.root, "-o", covp, dbs[p]], m.root)
                stats["evals"] += 1
                if rc != 0:
                    errs.append(f"cbi-cov[{p}] exited {rc}: {out[-300:]}{err[-300:]}")
                    continue
                cov = {e["file"]: e for e in json.load(open(covp))}
                for fid, path in m.paths.items():
                    if not path.startswith(os.path.realpath(m.root) + os.sep):
                        continue
                    rel = os.path.relpath(path, m.root)
                    if rel not in cov:
                        errs.append(f"cbi-cov[{p}]: {rel} not listed")
                        continue
                    used = set(cov[rel]["used_lines"])
                    unused = set(cov[rel]["unused_lines"])
                    if used != exp[p][fid] or unused != m.all_lines(fid) - exp[p][fid] or \
                            len(cov[rel]["used_lines"]) + len(cov[rel]["unused_lines"]) != len(m.all_lines(fid)):
                        errs.append(f"cbi-cov[{p}]: {rel} used={sorted(used)} unused={sorted(unused)} "
                                    f"expected used={sorted(exp[p][fid])}")
                    import hashlib
                    if cov[rel]["id"] != hashlib.sha512(open(path, "rb").read()).hexdigest():
                        errs.append(f"cbi-cov[{p}]: {rel} content hash wrong")
            # in-process setmap
            conf = m.load_configuration(byp, rnd)
            st, cb, logs, err = cbi.run_find(m.root, conf)
            stats["evals"] += 1
            if err is not None:
                errs.append(f"finder.find raised {err[0]}: {err[1]}")
            else:
                sm = {k: v for k, v in st.get_setmap(cb).items() if v}
                want = {frozenset(e["k"]): e["n"] for e in rep["setmap"] if e["n"]}
                if sm != want:
                    errs.append(f"get_setmap { {tuple(sorted(k)): v for k, v in sm.items()} } != "
                                f"{ {tuple(sorted(k)): v for k, v in want.items()} }")
            if errs:
                kind = errs[0].split(":")[0]
                fails.append(dict(layer="G", tags=sorted(tags), symptom=f"report-differs:{kind}",
                                  detail="; ".join(errs[:8]) + "\nents=" + repr(sc["ents"]), case=sc))
        finally:
            shutil.rmtree(base, ignore_errors=True)
    return fails, stats


def _jobs(js):
    return [replay_chunk(j) for j in js]


def run(ctx):
    q = ctx.quick
    cfg = C04.CFG
    p = os.path.join(core.OUT, f"GenScen_c06M_{os.getpid()}.cfg")
    os.makedirs(core.OUT, exist_ok=True)
    open(p, "w").write(cfg.format(profile="c06", shard=1, nshards=1) + "INVARIANT ReportLaws\nINVARIANT RefTotal\n")
    try:
        r = core.tlc("GenScen", p, workers=runner.NCPU, timeout=900, tag="C06M", heap="4g",
                     simulate=f"num={6 if q else 60}", depth=30, seed=ctx.seed + 1)
    finally:
        os.unlink(p)
    ctx.add_tlc("GenScen c06 ReportLaws (simulated scenarios)", r)
    if r.violation:
        ctx.model_violation("GenScen_c06", r)
    cases = runner.sharded_tlc(ctx, "GenScen", cfg.format(profile="c06", shard=0, nshards=1), 16, "GenScen_c06",
                               timeout=1200, simulate=f"num={8 if q else 100}", depth=30, seed=ctx.seed + 21)
    cases = C04.dedup(cases)
    if not cases:
        raise core.MachineryError("no scenarios")
    # exhaustive small profile: M (the report laws and exclusion additivity on EVERY scenario) and G (every scenario
    # through the three front ends)
    p = os.path.join(core.OUT, f"GenScen_c06sM_{os.getpid()}.cfg")
    open(p, "w").write(cfg.format(profile="c06s", shard=1, nshards=1) +
                       "INVARIANT ReportLaws\nINVARIANT RefTotal\nINVARIANT ExclusionAdditive\nINVARIANT OrderIndependent\n")
    try:
        r = core.tlc("GenScen", p, workers=runner.NCPU, timeout=900, tag="C06sM", heap="4g")
    finally:
        os.unlink(p)
    ctx.add_tlc("GenScen c06s ReportLaws / ExclusionAdditive (every scenario)", r)
    if r.violation:
        ctx.model_violation("GenScen_c06s", r)
    small = runner.sharded_tlc(ctx, "GenScen", cfg.format(profile="c06s", shard="@SHARD@", nshards="@NSHARDS@"), 8,
                               "GenScen_c06s", timeout=900)
    small = C04.dedup(small)
    ctx.cov["scenarios_exhaustive_c06s"] = len(small)
    if q:
        for sc in small:
            sc["light"] = True
    cases = small + cases
    ctx.cov["rule"] = (
        "TLC-simulated GenScen scenarios of profile c06 (5 header slots in src/, inc/, sys/include/, build/ and outside "
        "the root; 5 body kinds; 2 mains of <= 3 statements; 3 translation units over 1..3 platforms) with the expected "
        "summary table, tree rows (unpruned and pruned), coverage partition computed by Reports.tla, plus the zero-platform "
        "analysis of the same tree, and EVERY scenario of profile c06s (h.h beside the mains and in the -I directory with a body that "
        "depends on X, two mains including it in either form, two commands over one or two platforms with X defined or not); each is run through `codebasin -R summary`, cbi-tree (plain, --prune, -L 1, -L 2 "
        "--prune), cbi-cov compute per platform and get_setmap, with symlinks to a member file at the root and in a "
        "subdirectory. evaluations = CLI / API runs compared; non-trivial = more than one platform set occurs")
    ctx.cov["scenarios"] = len(cases)
    c0 = cases[0]
    ctx.sample({"ents": c0["ents"], "expected_summary": c0["rep"]["setmap"], "expected_tree": c0["rep"]["tree"][:4]})
    work = ctx.scratch()
    jobs = [(c, ctx.seed, work) for c in runner.chunks(cases, runner.NCPU * 2)]
    loaded = []
    for lst in runner.pmap(_jobs, jobs, chunk=1):
        for fails, stats in lst:
            ctx.cov["evaluations"] += stats["evals"]
            ctx.cov["distinct_nontrivial"] += stats["nontrivial"]
            ctx.cov["skipped"] = ctx.cov.get("skipped", 0) + stats["skipped"]
            loaded.extend(stats.get("traces", []))
            for f in fails:
                ctx.fail(f["layer"], f["tags"], f["symptom"], f["detail"], f["case"])
    # V: the executions of the `codebasin` front end itself (fresh interpreter, hooks switched on by the
    # environment) are judged event by event by Trace_Preproc
    from .. import trace_preproc
    trace_preproc.validate(ctx, [], tag="C06", loaded=loaded)


def replay(ctx, path):
    c = json.load(open(os.path.join(path, "case.json")))
    print(json.dumps(c, indent=1)[:4000])
    if c.get("case"):
        fails, _ = replay_chunk(([c["case"]], ctx.seed, ctx.scratch()))
        for f in fails:
            print("REPRODUCED:", f["symptom"], f["detail"][:2000])
            ctx.fail(f["layer"], f["tags"], f["symptom"], f["detail"], f["case"])
    ctx.cov["evaluations"] = 1
