"""
C05 - a physical line is counted iff it holds code outside comments.

M  MC_CLex.tla: product of the implementation model of c_cleaner/one_space_line/c_file_source and
   a reference phase-2/3 scanner over character classes with a VIEW hiding the history: TLC's
   fixpoint covers texts of ANY length.  GenCLex invariant RefSane on every enumerated text.
G  GenCLex: every text over the lexically significant alphabet up to MaxLen characters that the
   reference scanner (CScan) accepts, plus simulated token-level texts; the real
   FileParser.parse_file is compared with CScan: counted lines, directive extents, code runs,
   total_sloc, no line twice / outside the file; a sample also through the cbi-cov CLI.
"""
import json
import os
import re
import shutil
import subprocess
import sys
import tempfile

from .. import clexgraph, core, runner

CFG = """SPECIFICATION Spec
CONSTANTS
  Profile = "{profile}"
  MaxLen = {maxlen}
  Shard = {shard}
  NShards = {nshards}
CHECK_DEADLOCK FALSE
"""


def tags_of(text):
    t = set()
    if "/\\\n" in text:
        t.add("text.slash_before_splice")
    if "\\\n" in text:
        t.add("text.splice")
    if "'" in text:
        t.add("text.char_literal")
    if '"' in text:
        t.add("text.string_literal")
    if "/*" in text:
        t.add("text.block_comment")
    if "//" in text:
        t.add("text.line_comment")
    if "#" in text:
        t.add("text.hash")
    return t


def expected_nodes(case):
    """merge adjacent code logical lines (CBI builds one CodeNode per run)"""
    out = []
    for ll in case["logical"]:
        if ll["cat"] == "code" and out and out[-1][0] == "code":
            out[-1] = ("code", out[-1][1] | set(ll["lines"]))
        else:
            out.append((ll["cat"], set(ll["lines"])))
    return out


def real_nodes(path, language=None):
    from codebasin import file_parser, preprocessor as pp
    tree = file_parser.FileParser(path).parse_file(summarize_only=True, language=language)
    out = []
    allc = []
    for node in tree.walk():
        if isinstance(node, pp.DirectiveNode):
            out.append(("dir", set(node.lines)))
            allc += list(node.lines)
            if node.num_lines != len(node.lines):
                out.append(("num_lines-mismatch", set(node.lines)))
        elif isinstance(node, pp.CodeNode):
            out.append(("code", set(node.lines)))
            allc += list(node.lines)
            if node.num_lines != len(node.lines):
                out.append(("num_lines-mismatch", set(node.lines)))
    return out, allc, tree.root.total_sloc


def check_chunk(args):
    cases, workdir, ext, lang = args
    import warnings
    warnings.simplefilter("ignore")
    fails = []
    stats = {"evals": 0, "nontrivial": 0}
    d = tempfile.mkdtemp(prefix="c05-", dir=workdir)
    path = os.path.join(d, "t" + ext)
    try:
        for case in cases:
            core.tick(case, 20)
            text = case["text"]
            with open(path, "w", newline="") as f:
                f.write(text)
            stats["evals"] += 1
            tg = tags_of(text)
            exp = expected_nodes(case)
            if len(case["counted"]) != text.count("\n") or len(exp) > 1:
                stats["nontrivial"] += 1
            try:
                got, allc, sloc = real_nodes(path, lang)
            except BaseException as e:  # noqa
                if isinstance(e, (KeyboardInterrupt, SystemExit)):
                    raise
                fails.append(dict(layer="G", tags=sorted(tg | {"exception"}), symptom=f"exception:{type(e).__name__}",
                                  detail=f"{text!r}: {e}", case=case))
                continue
            nlines = text.count("\n")
            sym = None
            if len(allc) != len(set(allc)):
                sym = "line-counted-twice"
            elif any(l < 1 or l > nlines for l in allc):
                sym = "line-outside-file"
            elif set(allc) != set(case["counted"]):
                sym = "counted-lines-differ"
            elif got != exp:
                sym = "directive-or-code-extent-differs"
            elif sloc != len(case["counted"]):
                sym = "total_sloc-differs"
            if sym:
                fails.append(dict(layer="G", tags=sorted(tg), symptom=sym,
                                  detail=f"{text!r}: CBI nodes={[(k, sorted(v)) for k, v in got]} sloc={sloc}; "
                                         f"reference={[(k, sorted(v)) for k, v in exp]}", case=case))
        return fails, stats
    finally:
        shutil.rmtree(d, ignore_errors=True)


def _jobs(js):
    return [check_chunk(j) for j in js]


def cli_cov_sample(ctx, cases, n):
    """used_lines + unused_lines of cbi-cov == counted lines, on a few texts in one code base."""
    d = tempfile.mkdtemp(prefix="c05cli-", dir=ctx.scratch())
    try:
        pick = cases[:: max(1, len(cases) // n)][:n]
        want = {}
        for i, c in enumerate(pick):
            fn = f"f{i}.c"
            with open(os.path.join(d, fn), "w", newline="") as f:
                f.write(c["text"])
            want[fn] = sorted(c["counted"])
        db = [{"directory": d, "file": os.path.join(d, "f0.c"), "arguments": ["gcc", "-c", "f0.c"]}]
        with open(os.path.join(d, "cc.json"), "w") as f:
            json.dump(db, f)
        env = dict(os.environ, PYTHONPATH=core.repo_path())
        env.pop("CBI_VERIF", None)
        r = core.run_impl([sys.executable, "-m", "codebasin.coverage", "compute", "-S", d, "-o",
                            os.path.join(d, "cov.json"), os.path.join(d, "cc.json")], 300, cwd=d, env=env,
                           capture_output=True, text=True)
        if r.returncode != 0:
            ctx.fail("G", ["cli"], "cbi-cov-failed", r.stdout[-500:] + r.stderr[-500:])
            return
        cov = json.load(open(os.path.join(d, "cov.json")))
        for ent in cov:
            fn = ent["file"]
            if fn in want:
                ctx.cov["evaluations"] += 1
                got = sorted(ent["used_lines"] + ent["unused_lines"])
                if got != want[fn]:
                    ctx.fail("G", ["cli"] + sorted(tags_of(pick[int(fn[1:-2])]["text"])), "cbi-cov-lines-differ",
                             f"{pick[int(fn[1:-2])]['text']!r}: cbi-cov lists {got}, reference counts {want[fn]}")
    finally:
        shutil.rmtree(d, ignore_errors=True)


def oracle_scan(ctx, texts, name):
    """CScan verdicts for harness-supplied texts (EvalCLex.tla); returns cases for the ok ones."""
    os.makedirs(core.OUT, exist_ok=True)
    tf = os.path.join(core.OUT, f"texts_{name}_{os.getpid()}.json")
    with open(tf, "w") as f:
        json.dump(texts, f)
    try:
        cfg = "SPECIFICATION Spec\nCONSTANTS\n  Shard = @SHARD@\n  NShards = @NSHARDS@\nCHECK_DEADLOCK FALSE\n"
        os.environ["TEXTS_FILE"] = tf
        res = runner.sharded_tlc(ctx, "EvalCLex", cfg, 16, f"EvalCLex_{name}", timeout=3000)
    finally:
        os.environ.pop("TEXTS_FILE", None)
        os.unlink(tf)
    if len(res) != len(texts):
        raise core.MachineryError(f"EvalCLex judged {len(res)} of {len(texts)} texts")
    out = []
    for r in res:
        if r["ok"]:
            out.append({"text": texts[r["idx"] - 1], "counted": r["counted"], "logical": r["logical"]})
    return out


def run(ctx):
    q = ctx.quick
    dot = os.path.join(core.OUT, f"clex_{os.getpid()}")
    r = core.tlc("MC_CLex", "MC_CLex.cfg", workers=1, timeout=600, tag="clex",
                 extra=["-dump", "dot,actionlabels", dot])
    ctx.add_tlc("MC_CLex (cleaner model x reference scanner, any text length, fixpoint)", r)
    if r.violation:
        ctx.model_violation("MC_CLex", r)
    ttexts, ntr = clexgraph.transition_texts(dot + ".dot")
    os.unlink(dot + ".dot")
    ctx.cov["product_graph_transitions"] = ntr
    tcases = oracle_scan(ctx, ttexts, "trans")
    ctx.cov["transition_texts_wellformed"] = len(tcases)
    maxlen = 5 if q else 6
    p = os.path.join(core.OUT, f"GenCLex_M_{os.getpid()}.cfg")
    os.makedirs(core.OUT, exist_ok=True)
    open(p, "w").write(CFG.format(profile="chars", maxlen=4, shard=1, nshards=1) + "INVARIANT RefSane\n")
    try:
        r = core.tlc("GenCLex", p, workers=runner.NCPU, timeout=3000, tag="C05M")
    finally:
        os.unlink(p)
    ctx.add_tlc("GenCLex RefSane (all texts <= 4 chars)", r)
    if r.violation:
        ctx.model_violation("GenCLex", r)
    cases = runner.sharded_tlc(ctx, "GenCLex", CFG.format(profile="chars", maxlen=maxlen, shard="@SHARD@", nshards="@NSHARDS@"),
                               16, "GenCLex_chars", timeout=3000)
    sim = runner.sharded_tlc(ctx, "GenCLex", CFG.format(profile="toks", maxlen=14, shard=0, nshards=1), 16,
                             "GenCLex_toks", timeout=900, simulate=f"num={50 if q else 800}", depth=16, seed=ctx.seed + 9)
    seen = set()
    allc = []
    for c in cases + sim + tcases:
        if c["text"] not in seen:
            seen.add(c["text"])
            allc.append(c)
    if not allc:
        raise core.MachineryError("no texts generated")
    ctx.cov["rule"] = (
        f"every text of <= {maxlen} characters over {{a 1 space newline / * \" ' \\ #}} (+ final newline) that the reference "
        "scanner accepts as well-formed (no unterminated literal/comment, no stray backslash), plus TLC-simulated texts of "
        "up to 14 token-level fragments (literals containing comment markers, comments containing quotes, directives, "
        "splices); FileParser.parse_file is compared with CScan on counted lines, directive extents, code runs, total_sloc "
        "and 'no line twice / outside the file'. non-trivial = some line is not counted or more than one node")
    ctx.cov["exhaustive"] = True
    ctx.cov["texts"] = len(allc)
    for c in allc[len(allc) // 2: len(allc) // 2 + 2]:
        ctx.sample(c)
    work = ctx.scratch()
    jobs = [(c, work, ".c", None) for c in runner.chunks(allc, runner.NCPU * 3)]
    for lst in runner.pmap(_jobs, jobs, chunk=1):
        for fails, stats in lst:
            ctx.cov["evaluations"] += stats["evals"]
            ctx.cov["distinct_nontrivial"] += stats["nontrivial"]
            for f in fails:
                ctx.fail(f["layer"], f["tags"], f["symptom"], f["detail"], f["case"])
    cli_cov_sample(ctx, [c for c in sim if "text.slash_before_splice" not in tags_of(c["text"])], 40 if q else 200)


def replay(ctx, path):
    c = json.load(open(os.path.join(path, "case.json")))
    print(json.dumps(c, indent=1)[:3000])
    if c.get("case"):
        fails, _ = check_chunk(([c["case"]], ctx.scratch(), ".c", None))
        for f in fails:
            print("REPRODUCED:", f["symptom"], f["detail"])
            ctx.fail(f["layer"], f["tags"], f["symptom"], f["detail"], f["case"])
    ctx.cov["evaluations"] = 1
