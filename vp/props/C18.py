"""
C18 - nothing is dropped silently: unhonoured input is always reported.

M  GenScen profile c18: HonouredIsSilent (fully honoured input expects no warning; totals are the
   sums of the categories) and WarnsOnlyReached (every include warning names a reached directive)
   on the reference machine, which has no memory of failed look-ups.
G  scenarios with a known set of dangling includes (quote/angle, reached/unreached, in headers
   included once or several times, by several TUs and platforms), unknown directives, database
   entries for files that do not exist, an unknown compiler and an unknown option: the expected
   multiset of events comes from PreprocCore (warns) and GenScen (WarnExpect); observed
   (a) in-process: records of the 'codebasin' logger during load_database + finder.find,
   (b) through the CLI: cbi.log and the closing "N warnings generated / N user include / N system
   include" lines.
"""
import collections
import json
import os
import random
import re
import shutil

from .. import cbi, core, runner, scen, trace_preproc
from . import C04, C06

INC_RE = re.compile(r"^(.*?):(\d+): (user|system) include '([^']*)' not found")
UNK_RE = re.compile(r"^(.*?):(\d+):(\d+): unrecognized directive")


def expected_events(m, sc):
    """multiset of (kind, realpath, line, name) for include warnings; per TU occurrence"""
    ev = collections.Counter()
    for r in sc["res"]:
        for w in r["warns"]:
            line = m.lines_of[w["file"]][w["idx"] - 1][0]
            ev[("user" if w["form"] == "q" else "system", m.paths[w["file"]], line, w["name"])] += 1
    return ev


def unknown_expected(m, sc):
    """(realpath, line) of every unknown directive in every file CBI parses"""
    parsed = {f for f in m.paths if m.paths[f].startswith(os.path.realpath(m.root) + os.sep)}
    for r in sc["res"]:
        for fid, idx in r["attr"]:
            parsed.add(fid)
    out = collections.Counter()
    for f in parsed:
        for i, it in enumerate(sc["files"][f]["items"]):
            if it["k"] == "unknown":
                out[(m.paths[f], m.lines_of[f][i][0])] += 1
    return out


def classify(msgs):
    inc = collections.Counter()
    unk = collections.Counter()
    other = collections.Counter()
    for lv, msg in msgs:
        if lv != "WARNING":
            continue
        first = msg.split("\n")[0]
        mt = INC_RE.match(first)
        if mt:
            inc[(mt.group(3), os.path.realpath(mt.group(1)), int(mt.group(2)), mt.group(4))] += 1
            continue
        mt = UNK_RE.match(first)
        if mt:
            unk[(os.path.realpath(mt.group(1)), int(mt.group(2)))] += 1
            continue
        if first.startswith("Ignoring non-existent file"):
            other["ghost"] += 1
        elif re.match(r"Compiler '.*' not recognized", first):
            other["compiler"] += 1
        elif first.startswith("Unrecognized arguments"):
            other["flag"] += 1
        else:
            other["other:" + first[:60]] += 1
    return inc, unk, other


def replay_chunk(args):
    scens, seed, workdir, cli_every = args[:4]
    ci = args[4] if len(args) > 4 else 0
    fails = []
    stats = {"evals": 0, "nontrivial": 0, "skipped": 0}
    for si, sc in enumerate(scens):
        core.tick(sc, 900)
        tags = scen.features(sc) | {"c18"}
        if not scen.well_formed(sc) or "argv.forced_name_beside_main" in tags:
            stats["skipped"] += 1
            continue
        base = scen.new_base(workdir)
        try:
            rnd = random.Random(f"{seed}-{si}")
            m = scen.Mat(sc, base, seed=rnd.random())
            byp = scen.ents_by_plat(sc)
            plats = sorted(byp)
            want_inc = expected_events(m, sc)
            want_unk = unknown_expected(m, sc)
            w = sc["warn"]
            if w["total"]:
                stats["nontrivial"] += 1
            # (a) in-process
            stats["evals"] += 1
            with cbi.captured_logs() as h:
                try:
                    conf = m.load_configuration(byp, rnd)
                    err = None
                except Exception as e:  # noqa
                    err = (type(e).__name__, str(e), "")
                recs = list(h.records)
            if err is None:
                if si % 4 == 0:
                    st, cb, logs, err, trs = cbi.run_find_traced(m.root, conf, base, f"c18:{si}")
                    stats.setdefault("traces", []).extend(trs)
                else:
                    st, cb, logs, err = cbi.run_find(m.root, conf)
                recs += logs
            d = []
            if err is not None:
                d.append(f"pipeline raised {err[0]}: {err[1]}")
            else:
                inc, unk, other = classify(recs)
                if inc != want_inc:
                    d.append(f"include warnings issued {dict(inc - want_inc)} unexpected / {dict(want_inc - inc)} missing")
                if unk != want_unk:
                    d.append(f"unknown-directive warnings: got {dict(unk)} expected {dict(want_unk)}")
                for k in ("ghost", "compiler", "flag"):
                    if other.get(k, 0) != w[k]:
                        d.append(f"{k} warnings: got {other.get(k, 0)} expected {w[k]}")
                extra = {k: v for k, v in other.items() if k.startswith("other:")}
                if extra:
                    d.append(f"unexpected warnings on otherwise honoured input: {extra}")
                if sum(inc.values()) != w["user"] + w["system"] or sum(unk.values()) != w["unknown"]:
                    d.append(f"counts differ from GenScen.WarnExpect {w}")
            if d:
                fails.append(dict(layer="G", tags=sorted(tags), symptom="warnings-differ",
                                  detail="; ".join(d[:6]) + "\nents=" + repr(sc["ents"]), case=sc))
                continue
            # (b) CLI: cbi.log and closing totals
            if cli_every and si % cli_every == 0:
                dbs = {}
                for p in plats:
                    dbp = os.path.join(base, f"db_{p}.json")
                    with open(dbp, "w") as f:
                        json.dump(m.database(byp[p], rnd), f)
                    dbs[p] = dbp
                toml = os.path.join(base, "a.toml")
                open(toml, "w").write("".join(f'[platform.{p}]\ncommands = "{dbs[p]}"\n\n' for p in plats))
                stats["evals"] += 1
                # verbosity must not change what is tallied (with -v the warnings also reach the terminal)
                verb = [["-v"], [], ["-v", "-v", "-q"], ["-q"], ["-vv"]][(ci + si // cli_every) % 5]
                rc, out, errtxt = C06.cli("codebasin", verb + ["-R", "summary", toml], m.root)
                d = []
                if rc != 0:
                    d.append(f"codebasin exited {rc}: {out[-300:]}")
                else:
                    logtxt = open(os.path.join(m.root, "cbi.log")).read()
                    n_warn = len(re.findall(r"^warning: ", logtxt, re.M))
                    mt = re.search(r"(\d+) warnings generated during preprocessing", out)
                    tot = int(mt.group(1)) if mt else 0
                    mu = re.search(r"(\d+) user include files could not be found", out)
                    ms = re.search(r"(\d+) system include files could not be found", out)
                    nu = int(mu.group(1)) if mu else 0
                    ns = int(ms.group(1)) if ms else 0
                    # the closing meta-warnings are themselves logged as warnings after the tally
                    meta = (1 if mt else 0) + (1 if mu else 0) + (1 if ms else 0)
                    issued = n_warn - meta
                    if tot != w["total"] or nu != w["user"] or ns != w["system"]:
                        d.append(f"closing totals {tot}/{nu}/{ns} != expected {w['total']}/{w['user']}/{w['system']}")
                    if issued != w["total"]:
                        d.append(f"cbi.log holds {issued} warnings, expected {w['total']}")
                    if w["total"] == 0 and (mt or mu or ms):
                        d.append("fully honoured input printed warning totals")
                if d:
                    fails.append(dict(layer="G", tags=sorted(tags | {"cli"}), symptom="cli-warning-totals-differ",
                                      detail=f"codebasin {' '.join(verb)}: " + "; ".join(d) + "\nents=" + repr(sc["ents"]), case=sc))
        finally:
            shutil.rmtree(base, ignore_errors=True)
    return fails, stats


def _jobs(js):
    return [replay_chunk(j) for j in js]


def run(ctx):
    q = ctx.quick
    cfg = C04.CFG
    p = os.path.join(core.OUT, f"GenScen_c18M_{os.getpid()}.cfg")
    os.makedirs(core.OUT, exist_ok=True)
    open(p, "w").write(cfg.format(profile="c18", shard=1, nshards=1) + "INVARIANT HonouredIsSilent\nINVARIANT WarnsOnlyReached\n")
    try:
        r = core.tlc("GenScen", p, workers=runner.NCPU, timeout=900, tag="C18M", heap="4g",
                     simulate=f"num={5 if q else 100}", depth=30, seed=ctx.seed + 6)
    finally:
        os.unlink(p)
    ctx.add_tlc("GenScen c18 HonouredIsSilent/WarnsOnlyReached (simulated scenarios)", r)
    if r.violation:
        ctx.model_violation("GenScen_c18", r)
    cases = runner.sharded_tlc(ctx, "GenScen", cfg.format(profile="c18", shard=0, nshards=1), 16, "GenScen_c18",
                               timeout=900, simulate=f"num={12 if q else 300}", depth=30, seed=ctx.seed + 51)
    cases = C04.dedup(cases)
    if not cases:
        raise core.MachineryError("no scenarios")
    # exhaustive small profile c18s: ONE computed-include directive (in a header) evaluated once or twice in a translation
    # unit, its macro redefined in between to a header that exists or to a name that exists nowhere
    p = os.path.join(core.OUT, f"GenScen_c18sM_{os.getpid()}.cfg")
    open(p, "w").write(cfg.format(profile="c18s", shard=1, nshards=1) +
                       "INVARIANT HonouredIsSilent\nINVARIANT WarnsOnlyReached\nINVARIANT RefTotal\n")
    try:
        r = core.tlc("GenScen", p, workers=runner.NCPU, timeout=900, tag="C18sM", heap="4g")
    finally:
        os.unlink(p)
    ctx.add_tlc("GenScen c18s HonouredIsSilent/WarnsOnlyReached (every scenario)", r)
    if r.violation:
        ctx.model_violation("GenScen_c18s", r)
    small = C04.dedup(runner.sharded_tlc(ctx, "GenScen", cfg.format(profile="c18s", shard="@SHARD@", nshards="@NSHARDS@"), 4,
                                         "GenScen_c18s", timeout=900))
    ctx.cov["scenarios_exhaustive_c18s"] = len(small)
    cases = small + cases
    ctx.cov["rule"] = (
        "every scenario of the small profile c18s (a header whose body is one computed include, included once or twice by a "
        "translation unit that redefines the macro in between - to an existing header or to a name that exists nowhere) and "
        "TLC-simulated GenScen scenarios of profile c18: header bodies and main statements with includes of a name that "
        "exists nowhere (quote and angle form, in reached and #if 0 branches, in headers included once or several times), "
        "unknown directives, computed includes, 3 TUs over 2 platforms, each TU's command optionally naming an unknown "
        "compiler, carrying an unknown option and preceded by a database entry for a non-existent file. The expected "
        "multiset of include warnings (kind, file, line, name) comes from PreprocCore's warns per TU; the other tallies from "
        "GenScen.WarnExpect. Observed in-process (logger records) and through the CLI (cbi.log, closing totals). "
        "non-trivial = at least one warning is expected")
    ctx.cov["scenarios"] = len(cases)
    ctx.sample({"ents": cases[0]["ents"], "expected": cases[0]["warn"], "include_warnings": [r["warns"] for r in cases[0]["res"]]})
    work = ctx.scratch()
    loaded = []
    jobs = [(c, ctx.seed, work, 6 if q else 3, ci) for ci, c in enumerate(runner.chunks(cases, runner.NCPU * 2))]
    for lst in runner.pmap(_jobs, jobs, chunk=1):
        for fails, stats in lst:
            ctx.cov["evaluations"] += stats["evals"]
            ctx.cov["distinct_nontrivial"] += stats["nontrivial"]
            ctx.cov["skipped"] = ctx.cov.get("skipped", 0) + stats["skipped"]
            loaded.extend(stats.get("traces", []))
            for f in fails:
                ctx.fail(f["layer"], f["tags"], f["symptom"], f["detail"], f["case"])
    trace_preproc.validate(ctx, [], tag="C18", loaded=loaded)


def replay(ctx, path):
    c = json.load(open(os.path.join(path, "case.json")))
    print(json.dumps(c, indent=1)[:4000])
    if c.get("case"):
        fails, _ = replay_chunk(([c["case"]], ctx.seed, ctx.scratch(), 1))
        for f in fails:
            print("REPRODUCED:", f["symptom"], f["detail"][:2000])
            ctx.fail(f["layer"], f["tags"], f["symptom"], f["detail"], f["case"])
    ctx.cov["evaluations"] = 1
