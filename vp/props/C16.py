"""
C16 - the duplicates report lists exactly the sets of byte-identical files.

M  Duplicates.tla: the hash-bucket + remaining.pop() loop, with the digest ANY function of the
   content (collisions allowed) and the pop order ANY order, always returns the byte-equality
   classes of size >= 2 (LoopCorrect, GroupsGenuine, GroupsDisjoint) for every content assignment.
G  every code base of N files over a content pool (empty, differing in the last byte or in
   length) x kinds (regular, symlink, hard link, excluded by pattern, non-source extension) is
   materialised; report.find_duplicates and the printed Duplicates section are compared with the
   reference groups.
"""
import contextlib
import io
import json
import os
import re
import shutil
import tempfile

from .. import core, runner

GEN_CFG = """SPECIFICATION GenSpec
CONSTANTS
  N = {n}
  Pool = {pool}
  Kinds = {kinds}
  Hashes = {{1}}
  Shard = {shard}
  NShards = {nshards}
CHECK_DEADLOCK FALSE
"""
MC_CFG = """SPECIFICATION Spec
CONSTANTS
  N = {n}
  Pool = {pool}
  Kinds = {kinds}
  Hashes = {hashes}
  Shard = 0
  NShards = 1
INVARIANT LoopCorrect
INVARIANT GroupsGenuine
INVARIANT GroupsDisjoint
CHECK_DEADLOCK FALSE
"""
# "a" and its near twins: an extra blank line, no final newline, DOS line ending, other letter case
BODY = {"": b"", "a": b"int x;\n", "b": b"int y;\n", "ab": b"int x;\n\n", "A": b"int X;\n", "an": b"int x;", "ac": b"int x;\r\n"}


# "big" rendering: every non-empty content is a 70 KiB text that is the SAME for all contents except for one byte
# near its end, so distinct contents have equal size, an equal first 64 KiB (and equal timestamps): nothing short of
# reading the files to the end tells them apart
PAD = (b"/* " + b"=" * 66 + b" */\n") * 1000
BIGTAG = {}


def big_body(content):
    if content == "":
        return b""
    if content not in BIGTAG:
        BIGTAG[content] = "xyzwuvrst"[len(BIGTAG) % 9] + str(len(BIGTAG) // 9 or "")
    t = BIGTAG[content]
    return PAD + f"int {t:<4};\n".encode()


def materialise(case, d, two_dirs=False, big=False):
    """two_dirs: the code base consists of TWO directories, d and d + "-legacy" (the first a character prefix of
    the second)"""
    paths = {}
    subdirs = ["", "lib", "lib/deep", "src"]
    if two_dirs:
        os.makedirs(d + "-legacy", exist_ok=True)
    for i, f in enumerate(case["files"], start=1):
        k = f["kind"]
        sub = "excl" if k == "excl" else subdirs[i % len(subdirs)]
        ext = ".txt" if k == "nosrc" else (".c" if i % 2 else ".h")
        p = os.path.join(d if (not two_dirs or (i // 2) % 2 == 0) else d + "-legacy", sub, f"f{i}{ext}")
        os.makedirs(os.path.dirname(p), exist_ok=True)
        if k == "sym":
            os.symlink(paths[f["target"]], p)
        elif k == "hard":
            os.link(paths[f["target"]], p)
        else:
            with open(p, "wb") as fh:
                fh.write(big_body(f["content"]) if big else
                         BODY[f["content"]] if f["content"] in BODY else f"int {f['content']};\n".encode())
            # identical timestamps, as after extracting an archive: equal size + equal mtime must
            # not be mistaken for equal content
            os.utime(p, (1_600_000_000, 1_600_000_000))
        paths[i] = p
    return paths


def tags_of(case):
    t = {"kind." + f["kind"] for f in case["files"]}
    if any(f["content"] == "" for f in case["files"]):
        t.add("content.empty")
    if len(case["groups"]) > 1:
        t.add("groups.several")
    return t


def check_chunk(args):
    cases, workdir = args
    import warnings
    warnings.simplefilter("ignore")
    from codebasin import CodeBase, report
    fails = []
    stats = {"evals": 0, "nontrivial": 0}
    todo = []
    for case in cases:
        todo.append((case, False))
        # the same code base once more with large contents that differ only in a late byte (where that says anything:
        # at least two non-empty regular files, at most 8 files)
        if len(case["files"]) <= 8 and sum(1 for f in case["files"] if f["kind"] in ("reg", "excl", "nosrc") and f["content"]) >= 2:
            todo.append((case, True))
    for case, big in todo:
        core.tick(case, 300)
        d = tempfile.mkdtemp(prefix="c16-", dir=workdir)
        try:
            root = os.path.join(d, "root")
            os.makedirs(root)
            paths = materialise(case, root, two_dirs=True, big=big)
            inv = {os.path.abspath(p): i for i, p in paths.items()}
            want = {frozenset(g) for g in case["groups"]}
            if want:
                stats["nontrivial"] += 1
            tg = tags_of(case) | ({"content.big"} if big else set())
            stats["evals"] += 1
            try:
                cb = CodeBase(root, root + "-legacy", exclude_patterns=["/excl/"])   # anchored at each code-base directory
                got = report.find_duplicates(cb)
                got_sets = {frozenset(inv.get(os.path.abspath(str(p)), str(p)) for p in g) for g in got}
                buf, out = io.StringIO(), io.StringIO()
                with contextlib.redirect_stdout(out):
                    report.duplicates(cb, stream=buf)
                text = buf.getvalue() + out.getvalue()
            except BaseException as e:  # noqa
                if isinstance(e, (KeyboardInterrupt, SystemExit)):
                    raise
                fails.append(dict(layer="G", tags=sorted(tg | {"exception"}), symptom=f"exception:{type(e).__name__}",
                                  detail=f"{case['files']}: {e}", case=case))
                continue
            if len(got) != len(got_sets) or got_sets != want:
                fails.append(dict(layer="G", tags=sorted(tg), symptom="groups-differ",
                                  detail=f"big={big} files={case['files']} find_duplicates={sorted(map(sorted, got_sets), key=str)} "
                                         f"reference={sorted(map(sorted, want))}", case=case))
                continue
            sc = case.get("succ")
            if sc:
                with open(paths[sc["i"]], "r+b") as fh:     # in place: the same inode (and every hard link with it)
                    fh.seek(0)
                    fh.truncate()
                    fh.write(big_body(sc["content"]) if big else BODY.get(sc["content"], f"int {sc['content']};\n".encode()))
                os.utime(paths[sc["i"]], (1_600_000_000, 1_600_000_000))
                stats["evals"] += 1
                want2 = {frozenset(g) for g in sc["groups"]}
                try:
                    got2 = report.find_duplicates(CodeBase(root, root + "-legacy", exclude_patterns=["/excl/"]))
                    got2_sets = {frozenset(inv.get(os.path.abspath(str(p)), str(p)) for p in g) for g in got2}
                except Exception as e:  # noqa
                    got2_sets = f"exception:{type(e).__name__}: {e}"
                if got2_sets != want2:
                    fails.append(dict(layer="G", tags=sorted(tg | {"history.rewrite"}), symptom="groups-differ-after-rewrite",
                                      detail=f"big={big} files={case['files']}; file {sc['i']} rewritten in place with content "
                                             f"{sc['content']!r}: second find_duplicates={got2_sets if isinstance(got2_sets, str) else sorted(map(sorted, got2_sets), key=str)} "
                                             f"reference={sorted(map(sorted, want2))}", case=case))
                    continue
            printed = {inv.get(os.path.abspath(x.strip())) for x in re.findall(r"^- (.*)$", text, re.M)}
            members = set().union(*want) if want else set()
            nomatch = "No duplicates found." in text
            if printed != members or nomatch != (not want) or len(re.findall(r"^Match \d+:", text, re.M)) != len(want):
                fails.append(dict(layer="G", tags=sorted(tg), symptom="printed-section-differs",
                                  detail=f"files={case['files']} printed members {sorted(map(str, printed))} reference {sorted(members)}\n{text}",
                                  case=case))
        finally:
            shutil.rmtree(d, ignore_errors=True)
    return fails, stats


def _jobs(js):
    return [check_chunk(j) for j in js]


def tla_set(xs):
    return "{" + ", ".join(json.dumps(x) for x in xs) + "}"


def run(ctx):
    q = ctx.quick
    os.makedirs(core.OUT, exist_ok=True)
    p = os.path.join(core.OUT, f"MC_Dup_{os.getpid()}.cfg")
    open(p, "w").write(MC_CFG.format(n=4 if q else 5, pool=tla_set(["", "a", "b"]), kinds=tla_set(["reg", "sym"]),
                                     hashes="{1, 2}"))
    try:
        r = core.tlc("Duplicates", p, workers=runner.NCPU, timeout=3000, tag="dupM", heap="6g")
    finally:
        os.unlink(p)
    ctx.add_tlc("MC Duplicates loop model (every content map, digest, pop order)", r)
    if r.violation:
        ctx.model_violation("Duplicates", r)
    gen = GEN_CFG.format(n=4 if q else 5, pool=tla_set(["", "a", "ab", "an", "ac"]),
                         kinds=tla_set(["reg", "sym", "hard", "excl", "nosrc"]), shard="@SHARD@", nshards="@NSHARDS@")
    cases = runner.sharded_tlc(ctx, "Duplicates", gen, 8, "GenDuplicates", timeout=3000)
    big = core.tlc("Duplicates", "Duplicates_big.cfg", workers=1, timeout=600, tag="dupBig")
    ctx.add_tlc("Duplicates BigSpec (24 contents x 2 copies in one code base)", big)
    cases += [j for j in big.json if isinstance(j, dict) and "groups" in j]
    if not cases:
        raise core.MachineryError("no code bases generated")
    # history: ONE file of a code base is rewritten in place (same inode, same size class or not) and the report is
    # asked again in the same process; the expectation is the reference's answer for the resulting code base, which is
    # itself one of the enumerated ones
    index = {json.dumps(c["files"], sort_keys=True): c for c in cases}
    nsucc = 0
    for c in cases:
        fs = c["files"]
        if len(fs) > 8:
            continue
        regs = [i for i, f in enumerate(fs) if f["kind"] == "reg" and f["content"]]
        for i in regs:
            for j in regs:
                if "succ" in c or fs[j]["content"] == fs[i]["content"]:
                    continue
                nf = [dict(f) for f in fs]
                for f in nf:
                    if f is nf[i] or f["target"] == i + 1:
                        f["content"] = fs[j]["content"]
                succ = index.get(json.dumps(nf, sort_keys=True))
                if succ is not None and succ["groups"] != c["groups"]:
                    c["succ"] = {"i": i + 1, "content": fs[j]["content"], "groups": succ["groups"]}
                    nsucc += 1
    ctx.cov["rewrite_histories"] = nsucc
    ctx.cov["rule"] = (
        "every code base of N files whose contents come from a pool with an empty file, a one-line file, the same line "
        "plus a trailing newline (differs in length only) and the same line with one byte changed (and, a second time, with "
        "70 KiB contents of equal size and equal timestamps that differ in one byte near the end), each file regular, a "
        "symlink or hard link to an earlier regular file, excluded by pattern, or with a non-source extension; the "
        "reference groups are the byte-equality classes of size >= 2 among regular files and hard links; "
        "report.find_duplicates and the printed Duplicates section are compared with them. "
        "non-trivial = at least one duplicate group exists")
    ctx.cov["exhaustive"] = True
    ctx.cov["codebases"] = len(cases)
    ctx.sample(cases[len(cases) // 2])
    work = ctx.scratch()
    jobs = [(c, work) for c in runner.chunks(cases, runner.NCPU * 3)]
    for lst in runner.pmap(_jobs, jobs, chunk=1):
        for fails, stats in lst:
            ctx.cov["evaluations"] += stats["evals"]
            ctx.cov["distinct_nontrivial"] += stats["nontrivial"]
            for f in fails:
                ctx.fail(f["layer"], f["tags"], f["symptom"], f["detail"], f["case"])


def replay(ctx, path):
    c = json.load(open(os.path.join(path, "case.json")))
    print(json.dumps(c, indent=1)[:3000])
    if c.get("case"):
        fails, _ = check_chunk(([c["case"]], ctx.scratch()))
        for f in fails:
            print("REPRODUCED:", f["symptom"], f["detail"])
            ctx.fail(f["layer"], f["tags"], f["symptom"], f["detail"], f["case"])
    ctx.cov["evaluations"] = 1
