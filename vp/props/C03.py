"""
C03 - macro definition and expansion conform to the C standard.

M  GenCMacro.tla invariants Terminates (fuel never exhausted on any table) and Stable (a second
   expansion of the result, hide sets kept, changes nothing).
G  every (table, invocation) of the catalogues: CMacro.Expand (Prosser's algorithm with hide
   sets) gives the expected token sequence; the real MacroExpander is driven with the table
   defined (a) by #define directives and (b) by -D strings, and observed as token spellings,
   through `#if INV == k` when the expansion is a single number, and -DNAME == #define NAME 1.
   gcc -E validates the reference (whitespace-insensitive) on every case it accepts.
"""
import os
import random
import re
import subprocess

from .. import core, runner

CFG = """SPECIFICATION Spec
CONSTANTS
  Profile = "{profile}"
  Shard = {shard}
  NShards = {nshards}
CHECK_DEADLOCK FALSE
"""


def define_text(m):
    if m["fn"]:
        ps = list(m["params"])
        if m["va"]:
            ps.append("...")
        head = f"{m['name']}({', '.join(ps)})"
    else:
        head = m["name"]
    return head, " ".join(m["body"])


def tags_of(case):
    t = set()
    for m in case["macros"].values():
        b = m["body"]
        if "##" in b:
            t.add("body.paste")
        if "#" in b:
            t.add("body.stringify")
        if m["va"]:
            t.add("macro.variadic")
        if m["name"] in b:
            t.add("body.self_reference")
    inv = case["inv"]
    s = " ".join(inv)
    if "( ," in s or ", )" in s or ", ," in s or "( )" in s:
        t.add("inv.empty_argument")
    fm = case["macros"].get("F")
    if fm and "##" in fm["body"] and "inv.empty_argument" in t:
        t.add("inv.empty_argument_next_to_paste")
    return t


def real_expand(case, via):
    """Returns (list of spellings | None, exception name)"""
    from codebasin import platform, preprocessor as pp
    p = platform.Platform("p", "/")
    try:
        nodes = []
        for m in case["macros"].values():
            head, body = define_text(m)
            if via == "define":
                node = pp.DirectiveParser(pp.Lexer(f"#define {head} {body}".rstrip()).tokenize()).parse()
                node.evaluate_for_platform(platform=p, filename="x.c", state=None)
                nodes.append(node)
            else:
                macro = pp.macro_from_definition_string(f"{head}={body}")
                p.define(macro.name, macro)
        toks = pp.Lexer(" ".join(case["inv"])).tokenize()
        out = pp.MacroExpander(p).expand(toks)
        res = [t.spelling()[0] for t in out]
        if nodes:
            # the parsed #define nodes belong to the file's tree and are evaluated again for every later
            # platform / translation unit: the second evaluation must define the same macros
            p2 = platform.Platform("p2", "/")
            for node in nodes:
                node.evaluate_for_platform(platform=p2, filename="x.c", state=None)
            out2 = pp.MacroExpander(p2).expand(pp.Lexer(" ".join(case["inv"])).tokenize())
            res2 = [t.spelling()[0] for t in out2]
            if res2 != res:
                return res2, "SecondEvaluationDiffers", None
        return res, None, p
    except BaseException as e:  # noqa
        if isinstance(e, (KeyboardInterrupt, SystemExit)):
            raise
        return None, type(e).__name__, None


def norm(sps):
    """the token sequence itself: token boundaries matter (1 2 is not 12) and string literals are compared
    character by character (the invocation is rendered with exactly one space between tokens, so ISO C
    fixes the white space inside a stringified argument)"""
    return tuple(t if t.startswith('"') else t.replace(" ", "") for t in sps if t != "")


def probe_expr(case):
    """a condition that is true iff the invocation expands as the reference says: for a single number k,
    `INV == k`; for an expansion to NOTHING, `INV + 1 == 1` (the unary plus remains)"""
    inv = " ".join(case["inv"])
    return f"{inv} + 1 == 1" if not case["out"] else f"{inv} == {int(case['out'][0])}"


def find_probe(numeric, fails, stats):
    """The command-line route: the macro table given as `defines` of a compile command (the strings that follow
    -D), the invocation in `#if INV == k`, through finder.find: one platform and one file per case."""
    import shutil
    import tempfile
    from .. import cbi
    if not numeric:
        return
    base = "/dev/shm" if os.path.isdir("/dev/shm") else None
    d = tempfile.mkdtemp(prefix="c03f-", dir=base)
    try:
        conf, want = {}, {}
        for i, (case, tg) in enumerate(numeric):
            path = os.path.join(d, f"f{i}.c")
            with open(path, "w") as f:
                f.write(f"#if {probe_expr(case)}\nint t;\n#else\nint e;\n#endif\n")
            defs = []
            for m in case["macros"].values():
                head, body = define_text(m)
                defs.append(f"{head}={body}")
            conf[f"c{i}"] = [cbi.entry(path, defs)]
            want[f"c{i}"] = (path, case, tg, defs)
        st, cb, logs, err = cbi.run_find(d, conf)
        stats["evals"] += len(conf)
        if err is not None:
            # isolate the failing case(s)
            for name, (path, case, tg, defs) in want.items():
                st1, _, _, e1 = cbi.run_find(d, {name: conf[name]})
                if e1 is not None:
                    fails.append(dict(layer="G", tags=sorted(tg | {"via.find"}), symptom=f"exception:{e1[0]}",
                                      detail=f"-D {defs} ;; #if {probe_expr(case)} through finder.find: {e1[1]}",
                                      case=case))
                    if len(fails) > 20:
                        break
            return
        for name, (path, case, tg, defs) in want.items():
            la = cbi.line_attr(st, path) or {}
            if not (name in la.get(2, ()) and name not in la.get(4, ())):
                fails.append(dict(layer="G", tags=sorted(tg | {"via.find"}), symptom="wrong-if-truth",
                                  detail=f"-D {defs} ;; #if {probe_expr(case)} is false through finder.find",
                                  case=case))
    finally:
        shutil.rmtree(d, ignore_errors=True)


def check_chunk(args):
    cases, seed = args
    import warnings
    warnings.simplefilter("ignore")
    from codebasin import preprocessor as pp
    fails = []
    stats = {"evals": 0, "nontrivial": 0, "ill": 0}
    numeric = []
    for case in cases:
        core.tick(case, 20)
        if case["ill"]:
            stats["ill"] += 1
            continue
        tg = tags_of(case)
        if case["out"] != case["inv"]:
            stats["nontrivial"] += 1
        for via in ("define", "dash-D"):
            # -D cannot express an empty function-like body differently; same text either way
            stats["evals"] += 1
            got, exc, plat = real_expand(case, via)
            desc = "; ".join(f"#define {h} {b}" for h, b in (define_text(m) for m in case["macros"].values()))
            if exc is not None:
                fails.append(dict(layer="G", tags=sorted(tg | {"via." + via}),
                                  symptom=("second-evaluation-of-define-differs" if exc == "SecondEvaluationDiffers" else f"exception:{exc}"),
                                  detail=f"{desc} ;; {' '.join(case['inv'])}  (expected {' '.join(case['out'])})",
                                  case=case))
                break
            if norm(got) != norm(case["out"]):
                fails.append(dict(layer="G", tags=sorted(tg | {"via." + via}), symptom="wrong-expansion",
                                  detail=f"{desc} ;; {' '.join(case['inv'])} -> {' '.join(got)} ; ISO C: {' '.join(case['out'])}",
                                  case=case))
                break
            # through the truth value of #if when the expansion is one number
            if via == "define" and len(case["out"]) == 1 and case["kinds"][0] == "num" and case["out"][0].isdigit():
                k = int(case["out"][0])
                numeric.append((case, tg))
                for expr, want in ((f"{' '.join(case['inv'])} == {k}", True), (f"{' '.join(case['inv'])} == {k + 1}", False)):
                    stats["evals"] += 1
                    try:
                        node = pp.DirectiveParser(pp.Lexer("#if " + expr).tokenize()).parse()
                        r = bool(node.evaluate_for_platform(platform=plat, filename="x.c", state=None))
                    except Exception as e:  # noqa
                        fails.append(dict(layer="G", tags=sorted(tg | {"via.if"}), symptom=f"exception:{type(e).__name__}",
                                          detail=f"{desc} ;; #if {expr}", case=case))
                        break
                    if r != want:
                        fails.append(dict(layer="G", tags=sorted(tg | {"via.if"}), symptom="wrong-if-truth",
                                          detail=f"{desc} ;; #if {expr} -> {r}", case=case))
                        break
            if via == "define" and case["out"] == []:
                numeric.append((case, tg))
            # history: #undef O / #define O <new body> on the SAME platform (same macro objects for F
            # and G), then the same line again: the result must be that of the new table
            if via == "define" and not case["ill2"]:
                stats["evals"] += 1
                try:
                    undef = pp.DirectiveParser(pp.Lexer("#undef O").tokenize()).parse()
                    undef.evaluate_for_platform(platform=plat, filename="x.c", state=None)
                    if case["redef"]["body"] != ["__UNDEF__"]:
                        h2, b2 = define_text(case["redef"])
                        node = pp.DirectiveParser(pp.Lexer(f"#define {h2} {b2}".rstrip()).tokenize()).parse()
                        node.evaluate_for_platform(platform=plat, filename="x.c", state=None)
                    got2 = [t.spelling()[0] for t in pp.MacroExpander(plat).expand(pp.Lexer(" ".join(case["inv"])).tokenize())]
                except Exception as e:  # noqa
                    fails.append(dict(layer="G", tags=sorted(tg | {"history.redefine"}), symptom=f"exception:{type(e).__name__}",
                                      detail=f"{desc} ;; after redefining O as {case['redef']['body']}: {' '.join(case['inv'])}", case=case))
                    break
                if norm(got2) != norm(case["out2"]):
                    fails.append(dict(layer="G", tags=sorted(tg | {"history.redefine"}), symptom="wrong-expansion-after-redefinition",
                                      detail=f"{desc} ;; then #undef O / #define O {' '.join(case['redef']['body'])} ;; "
                                             f"{' '.join(case['inv'])} -> {' '.join(got2)} ; ISO C: {' '.join(case['out2'])}", case=case))
                    break
    # all cases with a macro defined EMPTY (what -DNAME= must mean), and a sample of the others
    empties = [x for x in numeric if any(m["body"] == [] for m in x[0]["macros"].values())]
    others = [x for x in numeric if not any(m["body"] == [] for m in x[0]["macros"].values())]
    random.Random(seed).shuffle(others)
    find_probe(empties[:300] + others[:300], fails, stats)
    return fails, stats


def _jobs(js):
    return [check_chunk(j) for j in js]


TOK_RE = re.compile(r'"(?:\\.|[^"\\])*"|\'(?:\\.|[^\'\\])*\'|[A-Za-z_]\w*|\d[\w.]*|##|<<|>>|[<>=!]=|&&|\|\||[^\s\w]')


def gcc_tokens(text):
    return TOK_RE.findall(text)


def gcc_validate(ctx, cases, limit, seed):
    rnd = random.Random(seed)
    pick = cases if len(cases) <= limit else rnd.sample(cases, limit)
    dis = n = 0
    for c in pick:
        src = "".join(f"#define {h} {b}\n" for h, b in (define_text(m) for m in c["macros"].values()))
        src += " ".join(c["inv"]) + "\n"
        p = subprocess.run(["gcc", "-E", "-P", "-x", "c", "-"], input=src, capture_output=True, text=True)
        ok = p.returncode == 0 and p.stderr.strip() == ""
        n += 1
        if ok == c["ill"]:
            # gcc accepts what the reference calls ill-formed, or diagnoses what it accepts
            dis += 1
            continue
        if ok and norm(gcc_tokens(p.stdout)) != norm(c["out"]):
            dis += 1
    ctx.cov["oracle_checks_gcc"] = n
    ctx.cov["oracle_disagreements"] = dis
    if n and dis / n > 0.03:
        raise core.MachineryError(f"CMacro disagrees with gcc -E on {dis}/{n} sampled cases")


def dash_d_default(ctx):
    """-DNAME behaves exactly like #define NAME 1"""
    from codebasin import platform, preprocessor as pp
    p = platform.Platform("p", "/")
    m = pp.macro_from_definition_string("NAME")
    p.define(m.name, m)
    for expr, want in (("NAME == 1", True), ("NAME + NAME == 2", True), ("NAME == 0", False)):
        ctx.cov["evaluations"] += 1
        try:
            node = pp.DirectiveParser(pp.Lexer("#if " + expr).tokenize()).parse()
            r = bool(node.evaluate_for_platform(platform=p, filename="x.c", state=None))
        except Exception as e:  # noqa
            ctx.fail("G", ["dashD.bare"], f"exception:{type(e).__name__}", f"-DNAME ;; #if {expr}")
            return
        if r != want:
            ctx.fail("G", ["dashD.bare"], "wrong-if-truth", f"-DNAME ;; #if {expr} -> {r}")
            return
    out = pp.MacroExpander(p).expand(pp.Lexer("NAME").tokenize())
    if [str(t) for t in out] != ["1"]:
        ctx.fail("G", ["dashD.bare"], "wrong-expansion", f"-DNAME expands to {[str(t) for t in out]}")


def run(ctx):
    q = ctx.quick
    prof = "q" if q else "t"
    p = os.path.join(core.OUT, f"GenCMacro_M_{os.getpid()}.cfg")
    os.makedirs(core.OUT, exist_ok=True)
    open(p, "w").write(CFG.format(profile=prof, shard=1, nshards=1) + "INVARIANT Terminates\nINVARIANT Stable\n")
    try:
        r = core.tlc("GenCMacro", p, workers=runner.NCPU, timeout=3000, tag="C03M")
    finally:
        os.unlink(p)
    ctx.add_tlc(f"MC GenCMacro profile {prof} (Terminates, Stable)", r)
    if r.violation:
        ctx.model_violation("GenCMacro", r)
    cases = runner.sharded_tlc(ctx, "GenCMacro", CFG.format(profile=prof, shard="@SHARD@", nshards="@NSHARDS@"), 8,
                               "GenCMacro", timeout=3000)
    if not cases:
        raise core.MachineryError("no macro cases generated")
    good = [c for c in cases if not c["ill"]]
    ctx.cov["rule"] = (
        "every combination of one definition per slot F (18 function-like bodies: parameters, variadics, #, ##, nested "
        "calls, self/mutual recursion), G (object-/function-like, forwarding, stringifying), O (object-like incl. self, "
        "mutual, naming a function-like macro, empty, containing a comma) x 34 invocation lines (0..n arguments incl. "
        "empty, parenthesised, macro-valued, trailing source tokens); the reference expansion is CMacro.Expand; cases a "
        "compiler rejects (arity) are excluded. Each case is expanded by the real MacroExpander with the table defined by "
        "#define and by -D strings and compared as token spellings, and through #if truth when the result is one number. "
        "non-trivial = the expansion differs from the input")
    ctx.cov["exhaustive"] = True
    ctx.cov["cases_generated"] = len(cases)
    ctx.cov["cases_wellformed"] = len(good)
    ctx.sample({"macros": [" ".join(define_text(m)) for m in good[len(good) // 2]["macros"].values()],
                "line": " ".join(good[len(good) // 2]["inv"]), "expected": " ".join(good[len(good) // 2]["out"])})
    gcc_validate(ctx, cases, 600 if q else 6000, ctx.seed)
    jobs = [(c, ctx.seed) for c in runner.chunks(good, runner.NCPU * 3)]
    res = runner.pmap(_jobs, jobs, chunk=1)
    for lst in res:
        for fails, stats in lst:
            ctx.cov["evaluations"] += stats["evals"]
            ctx.cov["distinct_nontrivial"] += stats["nontrivial"]
            for f in fails:
                ctx.fail(f["layer"], f["tags"], f["symptom"], f["detail"], f["case"])
    dash_d_default(ctx)


def replay(ctx, path):
    import json
    c = json.load(open(os.path.join(path, "case.json")))
    print(json.dumps(c, indent=1)[:3000])
    if c.get("case"):
        print("real (#define):", real_expand(c["case"], "define")[:2])
    ctx.cov["evaluations"] = 1
