"""
C17 - Fortran sources: comment/continuation handling and preprocessor conditionals.

M  GenFLex invariant RefSane on every enumerated text; the conditional-selection part shares
   C01's model check (the visitor does not depend on the language).
G  (a) GenFLex: every sequence of up to MaxLines line templates that the reference scanner FScan
       accepts + simulated longer texts; FileParser.parse_file on a .f90 file is compared with
       FScan (counted lines, directive extents, no line twice / outside the file);
   (b) GenC01's abstract programs rendered as free-form Fortran (.F90) and run through
       finder.find: the selected lines must be exactly those of the reference, as for C;
       `gfortran -cpp -E` validates the expectation on a sample.
"""
import json
import os
import random
import shutil
import subprocess
import tempfile

from .. import clexgraph, core, render, runner
from . import C01, C05

CFG = """SPECIFICATION Spec
CONSTANTS
  Profile = "{profile}"
  MaxLines = {maxlines}
  Shard = {shard}
  NShards = {nshards}
CHECK_DEADLOCK FALSE
"""


def tags_of(lines):
    t = set()
    for ln in lines:
        s = ln.strip()
        if s.startswith("#"):
            t.add("line.directive")
        if s.endswith("&") or "& !" in s:
            t.add("line.continued")
        if s.startswith("&"):
            t.add("line.leading_amp")
        if s.startswith("!") and "$" in s:
            t.add("line.sentinel")
        if "'" in s or '"' in s:
            t.add("line.literal")
        if "''" in s:
            t.add("line.doubled_quote")
    return t


def check_chunk(args):
    cases, workdir = args
    import warnings
    warnings.simplefilter("ignore")
    fails = []
    stats = {"evals": 0, "nontrivial": 0}
    d = tempfile.mkdtemp(prefix="c17-", dir=workdir)
    path = os.path.join(d, "t.f90")
    try:
        for case in cases:
            core.tick(case, 60)
            text = "\n".join(case["lines"]) + "\n"
            with open(path, "w", newline="") as f:
                f.write(text)
            stats["evals"] += 1
            tg = tags_of(case["lines"])
            if len(case["counted"]) != len(case["lines"]):
                stats["nontrivial"] += 1
            try:
                got, allc, sloc = C05.real_nodes(path)
            except BaseException as e:  # noqa
                if isinstance(e, (KeyboardInterrupt, SystemExit)):
                    raise
                fails.append(dict(layer="G", tags=sorted(tg | {"exception"}), symptom=f"exception:{type(e).__name__}",
                                  detail=f"{case['lines']!r}: {e}", case=case))
                continue
            n = len(case["lines"])
            dirs = [sorted(v) for k, v in got if k == "dir"]
            sym = None
            if len(allc) != len(set(allc)):
                sym = "line-counted-twice"
            elif any(l < 1 or l > n for l in allc):
                sym = "line-outside-file"
            elif set(allc) != set(case["counted"]):
                sym = "counted-lines-differ"
            elif dirs != [sorted(x) for x in case["dirs"]]:
                sym = "directive-extent-differs"
            elif sloc != len(case["counted"]):
                sym = "total_sloc-differs"
            if sym:
                fails.append(dict(layer="G", tags=sorted(tg), symptom=sym,
                                  detail=f"{case['lines']!r}: CBI counts {sorted(set(allc))} dirs={dirs}; reference counts "
                                         f"{sorted(case['counted'])} dirs={case['dirs']}", case=case))
        return fails, stats
    finally:
        shutil.rmtree(d, ignore_errors=True)


def _jobs(js):
    return [check_chunk(j) for j in js]


def header_chunk(args):
    """Fortran text in a header named conf.h outside the code base, included by main.F90."""
    from .. import cbi
    cases, workdir = args
    fails = []
    stats = {"evals": 0}
    for case in cases:
        core.tick(case, 300)
        d = tempfile.mkdtemp(prefix="c17h-", dir=workdir)
        try:
            root = os.path.join(d, "root")
            ext = os.path.join(d, "ext")
            os.makedirs(root)
            os.makedirs(ext)
            hdr = os.path.join(ext, "conf.h")
            with open(hdr, "w") as f:
                f.write("\n".join(case["lines"]) + "\n#define HAVE_IT 1\n")
            main = os.path.join(root, "main.F90")
            with open(main, "w") as f:
                f.write('#include "conf.h"\n#ifdef HAVE_IT\nx = 1\n#else\nx = 2\n#endif\n')
            stats["evals"] += 1
            st, cb, logs, err = cbi.run_find(root, {"p": [cbi.entry(main, [], [ext])]})
            tg = tags_of(case["lines"]) | {"header.c_extension_outside_codebase"}
            if err is not None:
                fails.append(dict(layer="G", tags=sorted(tg | {"exception"}), symptom=f"exception:{err[0]}",
                                  detail=f"{case['lines']!r} as conf.h: {err[1]}", case=case))
                continue
            la = cbi.line_attr(st, main)
            used = sorted(k for k, v in la.items() if k != "__dup__" and "p" in v)
            hl = cbi.line_attr(st, hdr) or {}
            hcount = sorted(k for k in hl if k != "__dup__")
            want_h = sorted(set(case["counted"]) | {len(case["lines"]) + 1})
            if used != [1, 2, 3, 4, 6]:
                fails.append(dict(layer="G", tags=sorted(tg), symptom="include-definition-lost",
                                  detail=f"{case['lines']!r} as conf.h: main.F90 uses lines {used}, expected [1,2,3,4,6]", case=case))
            elif hcount != want_h:
                fails.append(dict(layer="G", tags=sorted(tg), symptom="counted-lines-differ",
                                  detail=f"{case['lines']!r} as conf.h included from Fortran: counted {hcount}, reference {want_h}", case=case))
        finally:
            shutil.rmtree(d, ignore_errors=True)
    return fails, stats


def _hjobs(js):
    return [header_chunk(j) for j in js]


def gfortran_validate(ctx, cases, limit, seed):
    """`gfortran -cpp -E` must select the code markers the reference selects."""
    rnd = random.Random(seed)
    pick = cases if len(cases) <= limit else rnd.sample(cases, limit)
    d = tempfile.mkdtemp(prefix="c17gf-", dir=ctx.scratch())
    n = dis = 0
    try:
        for case in pick:
            prog = case["prog"]
            text, lines_of = render.render_c(prog, seed=3, fortran=True, uid="mk")
            fn = os.path.join(d, "m.F90")
            open(fn, "w").write(text)
            for (a, b, ok, bits) in rnd.sample(case["exp"], 2):
                if not ok:
                    continue
                defs = C01._defines(a, b, random.Random(0))
                p = subprocess.run(["gfortran", "-cpp", "-E", "-P", fn] + [f"-D{x}" for x in defs],
                                   capture_output=True, text=True)
                if p.returncode != 0:
                    continue
                n += 1
                k = 0
                for i, it in enumerate(prog):
                    if it["k"] == "code":
                        k += 1
                        present = (f"mk{k}" in p.stdout.replace(" ", ""))
                        if present != bool(bits[i]):
                            dis += 1
                            break
    finally:
        shutil.rmtree(d, ignore_errors=True)
    ctx.cov["oracle_checks_gfortran"] = n
    ctx.cov["oracle_disagreements"] += dis
    if n and dis / n > 0.02:
        raise core.MachineryError(f"reference disagrees with gfortran -cpp -E on {dis}/{n} cases")


def oracle_scan(ctx, texts, name):
    """FScan verdicts for harness-supplied texts (EvalFLex.tla); returns cases for the well-formed ones."""
    os.makedirs(core.OUT, exist_ok=True)
    tf = os.path.join(core.OUT, f"ftexts_{name}_{os.getpid()}.json")
    lines = [t.split("\n")[:-1] for t in texts]
    with open(tf, "w") as f:
        json.dump(lines, f)
    try:
        cfg = "SPECIFICATION Spec\nCONSTANTS\n  Shard = @SHARD@\n  NShards = @NSHARDS@\nCHECK_DEADLOCK FALSE\n"
        os.environ["TEXTS_FILE"] = tf
        res = runner.sharded_tlc(ctx, "EvalFLex", cfg, 16, f"EvalFLex_{name}", timeout=3000)
    finally:
        os.environ.pop("TEXTS_FILE", None)
        os.unlink(tf)
    if len(res) != len(texts):
        raise core.MachineryError(f"EvalFLex judged {len(res)} of {len(texts)} texts")
    return [{"lines": lines[r["idx"] - 1], "counted": r["counted"], "dirs": r["dirs"]} for r in res if r["ok"]]


def run(ctx):
    q = ctx.quick
    # M: product of the implementation model (C pass in directives-only mode + fortran_cleaner) and the
    # reference scanner, over character classes, any text length; then one text family per transition
    dot = os.path.join(core.OUT, f"flex_{os.getpid()}")
    r = core.tlc("MC_FLex", "MC_FLex.cfg", workers=1, timeout=600, tag="flex", extra=["-dump", "dot,actionlabels", dot])
    ctx.add_tlc("MC_FLex (C pass + fortran_cleaner model x reference scanner, any text length, fixpoint)", r)
    if r.violation:
        ctx.model_violation("MC_FLex", r)
    ttexts, ntr = clexgraph.transition_texts(dot + ".dot", clexgraph.F_CLASS_CHAR, clexgraph.F_SUFFIXES,
                                             splice_action="EndLine(TRUE)", nl_action="EndLine(FALSE)")
    os.unlink(dot + ".dot")
    ctx.cov["product_graph_transitions"] = ntr
    tcases = oracle_scan(ctx, ttexts, "trans")
    ctx.cov["transition_texts_wellformed"] = len(tcases)
    p = os.path.join(core.OUT, f"GenFLex_M_{os.getpid()}.cfg")
    os.makedirs(core.OUT, exist_ok=True)
    open(p, "w").write(CFG.format(profile="small", maxlines=3, shard=1, nshards=1) + "INVARIANT RefSane\n")
    try:
        r = core.tlc("GenFLex", p, workers=runner.NCPU, timeout=3000, tag="C17M")
    finally:
        os.unlink(p)
    ctx.add_tlc("GenFLex RefSane (small catalogue, <= 3 lines)", r)
    if r.violation:
        ctx.model_violation("GenFLex", r)
    cases = runner.sharded_tlc(ctx, "GenFLex", CFG.format(profile="small", maxlines=3 if q else 4, shard="@SHARD@",
                                                          nshards="@NSHARDS@"), 16, "GenFLex_small", timeout=3000)
    cases += runner.sharded_tlc(ctx, "GenFLex", CFG.format(profile="full", maxlines=2 if q else 3, shard="@SHARD@",
                                                           nshards="@NSHARDS@"), 16, "GenFLex_full", timeout=3000)
    cases += runner.sharded_tlc(ctx, "GenFLex", CFG.format(profile="cont", maxlines=5 if q else 6, shard="@SHARD@",
                                                           nshards="@NSHARDS@"), 16, "GenFLex_cont", timeout=3000)
    sim = runner.sharded_tlc(ctx, "GenFLex", CFG.format(profile="full", maxlines=12, shard=0, nshards=1), 16,
                             "GenFLex_sim", timeout=900, simulate=f"num={50 if q else 700}", depth=14, seed=ctx.seed + 2)
    seen, allc = set(), []
    for c in cases + sim + tcases:
        k = "\n".join(c["lines"])
        if k not in seen:
            seen.add(k)
            allc.append(c)
    if not allc:
        raise core.MachineryError("no Fortran texts generated")
    ctx.cov["rule"] = (
        "every sequence of up to MaxLines line templates (statements; literals with doubled quotes and embedded ! & //; "
        "trailing/full-line comments; sentinels !$omp !$acc !dir$; & continuations with/without leading &, with comments "
        "interleaved; literal continuations; preprocessor directives incl. continued ones) that FScan accepts, plus "
        "simulated 12-line texts, plus one family of texts per transition of the MC_FLex product graph (input history of "
        "the source state + the transition's character + 15 completions, judged by FScan through EvalFLex); "
        "FileParser.parse_file on .f90 compared with FScan; and GenC01's conditional programs "
        "rendered as Fortran compared per line through finder.find. non-trivial = some line is not counted")
    ctx.cov["exhaustive"] = True
    ctx.cov["texts"] = len(allc)
    ctx.sample(allc[len(allc) // 2])
    work = ctx.scratch()
    jobs = [(c, work) for c in runner.chunks(allc, runner.NCPU * 3)]
    for lst in runner.pmap(_jobs, jobs, chunk=1):
        for fails, stats in lst:
            ctx.cov["evaluations"] += stats["evals"]
            ctx.cov["distinct_nontrivial"] += stats["nontrivial"]
            for f in fails:
                ctx.fail(f["layer"], f["tags"], f["symptom"], f["detail"], f["case"])
    # (a') the same texts as a header WITHOUT a Fortran extension, outside the code base, included from a
    # Fortran file: it must be scanned with the includer's language and its definitions must take effect
    hdr_cases = [c for c in allc if not any(l.lstrip().startswith("#") for l in c["lines"])]
    hdr_cases = hdr_cases[:: max(1, len(hdr_cases) // (150 if q else 1500))]
    jobs = [(c, work) for c in runner.chunks(hdr_cases, runner.NCPU * 2)]
    for lst in runner.pmap(_hjobs, jobs, chunk=1):
        for fails, stats in lst:
            ctx.cov["evaluations"] += stats["evals"]
            for f in fails:
                ctx.fail(f["layer"], f["tags"], f["symptom"], f["detail"], f["case"])
    # (b) conditional selection in Fortran files
    cfg01 = C01.CFG.format(maxdir=3 if q else 4, maxnest=2, shard="@SHARD@", nshards="@NSHARDS@", rich="FALSE")
    progs = runner.sharded_tlc(ctx, "GenC01", cfg01, 8, "GenC01_for_fortran", timeout=3000)
    gfortran_validate(ctx, progs, 40 if q else 400, ctx.seed)
    traces, dirs = C01.replay_all(ctx, progs, ext=".F90", want_trace=0, label="F90")
    for dd in dirs:
        shutil.rmtree(dd, ignore_errors=True)


def replay(ctx, path):
    c = json.load(open(os.path.join(path, "case.json")))
    print(json.dumps(c, indent=1)[:3000])
    if c.get("case") and "lines" in c["case"]:
        fails, _ = check_chunk(([c["case"]], ctx.scratch()))
        for f in fails:
            print("REPRODUCED:", f["symptom"], f["detail"])
            ctx.fail(f["layer"], f["tags"], f["symptom"], f["detail"], f["case"])
    ctx.cov["evaluations"] = 1
