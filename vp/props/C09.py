"""
C09 - code-base membership: extension, location and git-style exclude patterns.

M  GenIgnore.tla: on the fixed awkward tree and every pattern list up to the bound, membership
   (FileSys.Resolve + GitIgnore.Ignored) is spelling independent and links to the outside,
   dangling links, non-source files and the sibling root are never members.
G  every pattern list of up to MaxPats patterns from the 36-pattern catalogue (anchored,
   directory-only, * ? [..] [!..], **, escapes, comments, blank, negation, re-inclusion below an
   excluded directory) on the materialised tree: `path in CodeBase` for every regular file through
   every TLC-generated spelling (absolute, relative, with . and .., through file and directory
   links) and list(CodeBase) are compared with the specification.
   `git check-ignore --no-index` on the same tree validates GitIgnore.tla.
"""
import json
import os
import shutil
import subprocess
import tempfile

from .. import core, runner

CFG = """SPECIFICATION Spec
CONSTANTS
  MaxPats = {maxpats}
  Shard = {shard}
  NShards = {nshards}
CHECK_DEADLOCK FALSE
"""

REG = ["root/a.c", "root/b.h", "root/notes.txt", "root/noext", "root/a b.c", "root/[x].c", "root/a*.c", "root/.hidden.c",
       "root/d1/a.c", "root/d1/ab.c", "root/d1/d2/a.c", "root/d1/d2/deep.h", "root/build/gen.c", "root/a/a.c",
       "root/src.c/in.c", "root/d1/Makefile", "root/.c", "root/d1/.h", "root2/x.c", "outside/o.c",
       "root/x.c++", "root/d1/y.h++", "root/z.ccc", "root/w.hhh", "root/k.F90", "root/up.C", "root/t.cu", "root/m.cpp.txt",
       "root/v.S", "root/n.f9"]
LINKS = {"root/lnk_d1": "root/d1", "root/la.c": "root/a.c", "root/lout.c": "outside/o.c", "root/dangling.c": "root/nowhere.c",
         "root/lnk_out": "outside", "root/d1/back": "root", "root/d1/d2/up": "root/a"}


def build_tree(base):
    for i, rel in enumerate(REG):
        p = os.path.join(base, rel)
        os.makedirs(os.path.dirname(p), exist_ok=True)
        with open(p, "w") as f:
            f.write(f"int v{i};\n")
    for lp, tp in LINKS.items():
        os.symlink(os.path.join(base, tp), os.path.join(base, lp))


def real(base, p):
    return os.path.join(base, *p[1:])


def tags_of(case):
    t = set()
    if case.get("parentrule"):
        t.add("pat.file_ignored_only_by_excluded_parent_directory")
    if case.get("negdirrule"):
        t.add("pat.negated_directory_pattern_above_ignored_file")
    for p in case["patterns"]:
        if p.startswith("!"):
            t.add("pat.negation")
        if "**" in p:
            t.add("pat.doublestar")
        if p.endswith("/"):
            t.add("pat.dironly")
        if "\\" in p:
            t.add("pat.escape")
        if "[" in p and "\\[" not in p:
            t.add("pat.class")
        if p.startswith("#") or p == "":
            t.add("pat.comment_or_blank")
    return t


def check_chunk(args):
    cases, workdir, git_every = args
    import warnings
    warnings.simplefilter("ignore")
    from codebasin import CodeBase
    fails = []
    stats = {"evals": 0, "nontrivial": 0, "git": 0, "git_dis": 0}
    base = tempfile.mkdtemp(prefix="c09-", dir=workdir)
    cwd = os.getcwd()
    try:
        build_tree(base)
        root = os.path.join(base, "root")
        subprocess.run(["git", "init", "-q", root], capture_output=True)
        os.chdir(root)
        canon = {tuple(["B"] + rel.split("/")): os.path.join(base, rel) for rel in REG}
        for ci, case in enumerate(cases):
            core.tick(case, 300)
            members = {tuple(m) for m in case["members"]}
            ignored = {tuple(m) for m in case["ignored"]}
            tg = tags_of(case)
            if ignored:
                stats["nontrivial"] += 1
            # ---- oracle validation with git
            if git_every and ci % git_every == 0:
                with open(os.path.join(root, ".gitignore"), "w") as f:
                    f.write("\n".join(case["patterns"]) + "\n")
                rels = [os.path.relpath(p, root) for k, p in canon.items() if k[1] == "root"]
                pr = subprocess.run(["git", "-C", root, "check-ignore", "--no-index", "--stdin"], input="\n".join(rels) + "\n",
                                    capture_output=True, text=True)
                git_ign = {x.strip().strip('"') for x in pr.stdout.splitlines()}
                spec_ign = {os.path.relpath(real(base, list(k)), root) for k in ignored}
                stats["git"] += 1
                if git_ign != spec_ign:
                    stats["git_dis"] += 1
                    stats.setdefault("git_detail", []).append(f"{case['patterns']}: git {sorted(git_ign)} spec {sorted(spec_ign)}")
                os.unlink(os.path.join(root, ".gitignore"))
            try:
                cb = CodeBase(root, exclude_patterns=list(case["patterns"]))
                bad = None
                spell = {tuple(json.loads(k.replace("<<", "[").replace(">>", "]"))): v for k, v in case["spellings"].items()}
                for k, path in canon.items():
                    want = k in members
                    sps = [list(k)] + [s for s in spell.get(k, [])]
                    for s in sps:
                        for form in ("abs", "rel"):
                            p = real(base, s)
                            if form == "rel" and len(s) > 2:
                                # relative to the root, component by component (no lexical normalisation: a ".."
                                # after a directory link must stay where it is)
                                p = "/".join(s[2:]) if s[1] == "root" else "../" + "/".join(s[1:])
                            stats["evals"] += 1
                            got = p in cb
                            if got != want:
                                bad = ("membership-differs", f"patterns={case['patterns']}: `{p}` in CodeBase -> {got}, specification says {want}")
                                break
                        if bad:
                            break
                    if bad:
                        break
                if not bad:
                    for extra, why in (("root/lout.c", "link to a file outside"), ("root/dangling.c", "dangling link"),
                                       ("root/lnk_out/o.c", "path through a directory link to the outside"),
                                       ("root/src.c", "directory with a source extension"), ("root2/x.c", "sibling of the root")):
                        stats["evals"] += 1
                        if os.path.join(base, extra) in cb:
                            bad = ("membership-differs", f"patterns={case['patterns']}: {extra} ({why}) reported as member")
                            break
                if not bad:
                    listed = list(cb)
                    stats["evals"] += 1
                    phys = {os.path.realpath(p) for p in listed}
                    want_phys = {os.path.realpath(canon[k]) for k in members}
                    if phys != want_phys:
                        bad = ("enumeration-differs", f"patterns={case['patterns']}: enumerated {sorted(os.path.relpath(p, base) for p in phys)} "
                                                      f"expected {sorted(os.path.relpath(p, base) for p in want_phys)}")
                    elif any(p not in cb for p in listed):
                        bad = ("enumeration-differs", f"patterns={case['patterns']}: an enumerated path is not a member")
            except BaseException as e:  # noqa
                if isinstance(e, (KeyboardInterrupt, SystemExit)):
                    raise
                bad = (f"exception:{type(e).__name__}", f"patterns={case['patterns']}: {e}")
            if bad:
                fails.append(dict(layer="G", tags=sorted(tg), symptom=bad[0], detail=bad[1], case=case))
        return fails, stats
    finally:
        os.chdir(cwd)
        shutil.rmtree(base, ignore_errors=True)


def _jobs(js):
    return [check_chunk(j) for j in js]


def run(ctx):
    q = ctx.quick
    os.makedirs(core.OUT, exist_ok=True)
    p = os.path.join(core.OUT, f"GenIgnore_M_{os.getpid()}.cfg")
    open(p, "w").write(CFG.format(maxpats=2, shard=1, nshards=1) + "INVARIANT SpellingIndependent\nINVARIANT NeverMembers\n")
    try:
        r = core.tlc("GenIgnore", p, workers=runner.NCPU, timeout=3000, tag="C09M", heap="4g")
    finally:
        os.unlink(p)
    ctx.add_tlc("GenIgnore SpellingIndependent/NeverMembers (every list of <= 2 patterns)", r)
    if r.violation:
        ctx.model_violation("GenIgnore", r)
    cases = runner.sharded_tlc(ctx, "GenIgnore", CFG.format(maxpats=2, shard="@SHARD@", nshards="@NSHARDS@"), 16,
                               "GenIgnore_2", timeout=3000)
    if not q:
        cases += runner.sharded_tlc(ctx, "GenIgnore", CFG.format(maxpats=3, shard=0, nshards=1), 16, "GenIgnore_3sim",
                                    timeout=1200, simulate="num=1500", depth=5, seed=ctx.seed + 5)
    seen, allc = set(), []
    for c in cases:
        k = "\n".join(c["patterns"])
        if k not in seen:
            seen.add(k)
            allc.append(c)
    if not allc:
        raise core.MachineryError("no pattern lists generated")
    ctx.cov["rule"] = (
        "every list of <= 2 patterns (thorough: + simulated lists of 3) from a 36-pattern catalogue on a fixed tree of 18 "
        "regular files in nested directories (names with a space, '[x]', a literal '*', a hidden file, a directory with a "
        "source extension, a directory named like a file stem, a sibling root sharing the root's prefix) with 6 symbolic links "
        "(file/dir, inside/outside, dangling, to the root); membership of every file through every generated spelling "
        "(absolute and relative, '.', 'dir/..', through file and directory links) and the enumeration are compared with "
        "GenIgnore.Member; git check-ignore --no-index validates the pattern semantics. non-trivial = some file is ignored")
    ctx.cov["exhaustive"] = True
    ctx.cov["pattern_lists"] = len(allc)
    ctx.sample({"patterns": allc[len(allc) // 2]["patterns"], "ignored": allc[len(allc) // 2]["ignored"]})
    work = ctx.scratch()
    jobs = [(c, work, 1) for c in runner.chunks(allc, runner.NCPU * 2)]
    for lst in runner.pmap(_jobs, jobs, chunk=1):
        for fails, stats in lst:
            ctx.cov["evaluations"] += stats["evals"]
            ctx.cov["distinct_nontrivial"] += stats["nontrivial"]
            ctx.cov["oracle_checks_git"] = ctx.cov.get("oracle_checks_git", 0) + stats["git"]
            ctx.cov["oracle_disagreements"] += stats["git_dis"]
            for dd in stats.get("git_detail", [])[:2]:
                print("git-disagreement:", dd[:400])
            for f in fails:
                ctx.fail(f["layer"], f["tags"], f["symptom"], f["detail"], f["case"])
    n = ctx.cov.get("oracle_checks_git", 0)
    if n and ctx.cov["oracle_disagreements"] / n > 0.01:
        raise core.MachineryError(f"GitIgnore.tla disagrees with git check-ignore on {ctx.cov['oracle_disagreements']}/{n} pattern lists")


def replay(ctx, path):
    c = json.load(open(os.path.join(path, "case.json")))
    print(json.dumps(c, indent=1)[:3000])
    if c.get("case"):
        fails, _ = check_chunk(([c["case"]], ctx.scratch(), 1))
        for f in fails:
            print("REPRODUCED:", f["symptom"], f["detail"])
            ctx.fail(f["layer"], f["tags"], f["symptom"], f["detail"], f["case"])
    ctx.cov["evaluations"] = 1
