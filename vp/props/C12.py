"""
C12 - compiler emulation: aliases, implicit options, modes and passes.

M  GenCompilerCfg.tla: the configuration language is interpreted by CompilerCfg.Parse; the
   implementation model processes a HISTORY of commands against the compiler table it keeps
   between commands; invariants HistoryIndependent (every command's result equals Parse on the
   original table) and AliasTotal (alias resolution always ends in ok / loop / unknown-target).
G  generated user configurations (.cbi/config written as TOML: compilers from rule subsets with the
   three custom actions, defaults, override, implicit options, modes, passes incl. a pass naming
   an unknown mode; alias chains, cycles, dangling targets) x command histories: the real
   config.ArgumentParser(name).parse_args is run in ONE process per case, in history order, and
   every result is compared with the specification's (set of passes; per pass the command's values
   in order followed by the pass's and modes' contributions); outcomes (unknown compiler, alias
   loop, unknown target) must be reported, never raised.
"""
import collections
import json
import os
import re
import shutil
import tempfile

from .. import cbi, core, runner, trace_cfg

CFG = """SPECIFICATION Spec
CONSTANTS
  Profile = "{profile}"
  ShareDefaults = FALSE
  Shard = {shard}
  NShards = {nshards}
CHECK_DEADLOCK FALSE
"""


def tstr(s):
    return json.dumps(s)


def tlist(xs):
    return "[" + ", ".join(tstr(x) for x in xs) + "]"


def tok_argv(t):
    if t["flag"] in ("-D",):
        return ["-D" + t["val"]]
    if t["flag"] in ("-I", "-include"):
        return [t["flag"], t["val"]]
    if t["val"] == "":
        return [t["flag"]]
    return [t["flag"] + "=" + t["val"]]


def write_config(d, table):
    lines = []
    for name, c in table.items():
        q = json.dumps(name)
        lines.append(f"[compiler.{q}]")
        if c["alias"]:
            lines.append(f"alias_of = {tstr(c['alias'])}")
            lines.append("")
            continue
        if c["options"]:
            opts = []
            for t in c["options"]:
                # implicit options are an argv fragment: flag and value as separate list elements
                opts += [t["flag"], t["val"]] if t["flag"] == "-D" else tok_argv(t)
            lines.append(f"options = {tlist(opts)}")
        lines.append("")
        for r in c["rules"]:
            lines.append(f"[[compiler.{q}.parser]]")
            lines.append(f"flags = {tlist(r['flags'])}")
            lines.append(f"action = {tstr(r['action'])}")
            lines.append(f"dest = {tstr(r['dest'])}")
            if r["action"] == "append_const":
                lines.append(f"const = {tstr(r['const'])}")
            else:
                lines.append(f"format = {tstr(r['prefix'] + '$value')}")
                if r["action"] == "store_split":
                    lines.append(f"sep = {tstr(r['sep'])}")
                else:
                    lines.append(f"pattern = '{r['pattern']}'")
                    if r["override"]:
                        lines.append("override = true")
                if r["hasdef"]:
                    lines.append(f"default = {tlist(r['default'])}")
            lines.append("")
        for mn, m in (c["modes"] or {}).items():
            lines.append(f"[[compiler.{q}.modes]]")
            lines.append(f"name = {tstr(mn)}")
            lines.append(f"defines = {tlist(m['defines'])}")
            lines.append(f"include_paths = {tlist(m['ipaths'])}")
            lines.append(f"include_files = {tlist(m['ifiles'])}")
            lines.append("")
        for pn, p in (c["passes"] or {}).items():
            lines.append(f"[[compiler.{q}.passes]]")
            lines.append(f"name = {tstr(pn)}")
            lines.append(f"defines = {tlist(p['defines'])}")
            lines.append(f"modes = {tlist(p['modes'])}")
            lines.append("")
    os.makedirs(os.path.join(d, ".cbi"), exist_ok=True)
    with open(os.path.join(d, ".cbi", "config"), "w") as f:
        f.write("\n".join(lines) + "\n")


def as_dict(x):
    """TLA+ functions over an empty domain come out as [] in JSON"""
    return x if isinstance(x, dict) else {}


def tags_of(case):
    t = set()
    for n, c in case["table"].items():
        if c["alias"]:
            t.add("cfg.alias")
        for r in c["rules"]:
            t.add("rule." + r["action"])
            if r["action"] == "extend_match" and not r["override"] and r["hasdef"] and r["dest"] == "passes":
                t.add("rule.extend_match_default_no_override")
    for e in case["expect"]:
        t.add("outcome." + e["outcome"])
    return t


PROBES = ["MODE1", "MODE2", "PASS1", "PBAD", "TA", "TB", "ARCH", "FROM_FLAG", "IMPL", "U", "V", "W_ab", "W_cd", "HDR_M1"]


def end_to_end(d, case, modecat, stats):
    """ALL commands of the history in one compilation database (one load_database call), each compiling its own
    copy main<k>.c of a file that tests every macro any configuration could define; m1.h (a mode's forced
    include) defines HDR_M1.  Command k alone forms platform p<k>."""
    from codebasin import config
    with open(os.path.join(d, "m1.h"), "w") as f:
        f.write("#define HDR_M1 1\n")
    db = []
    wants = []
    lines = []
    for k, (h, exp) in enumerate(zip(case["hist"], case["expect"])):
        if exp["outcome"] not in ("ok", "unknown"):
            wants.append(None)
            continue
        want = {}
        cfgs = []                     # per pass: macro -> value
        for c in exp["configs"]:
            defs = list(c["defines"])
            files = list(c["ifiles"])
            for mn in c["modes"]:
                defs += modecat[mn]["defines"]
                files += modecat[mn]["ifiles"]
            dd = {}
            for x in defs:
                nm, _, val = x.partition("=")
                dd[nm] = val if "=" in x else "1"
            if "m1.h" in files:
                dd["HDR_M1"] = "1"
            cfgs.append(dd)
        lines = []
        for pr in PROBES:
            lines.append(f"#ifdef {pr}")
            lines.append(f"int probe_{pr};")
            want[len(lines)] = any(pr in dd for dd in cfgs)
            lines.append("#endif")
        # by value: a pass that was not selected must not contribute its definition of the same macro
        for v in ("700", "750", "800"):
            lines.append(f"#if defined(ARCH) && ARCH == {v}")
            lines.append(f"int arch_{v};")
            want[len(lines)] = any(dd.get("ARCH") == v for dd in cfgs)
            lines.append("#endif")
        with open(os.path.join(d, f"main{k}.c"), "w") as f:
            f.write("\n".join(lines) + "\n")
        argv = []
        for t in h["argv"]:
            argv += tok_argv(t)
        name = h["name"] if k % 2 == 0 else "/opt/bin/" + h["name"]
        db.append({"directory": d, "file": f"main{k}.c", "arguments": [name] + argv + ["-c", f"main{k}.c"]})
        wants.append((want, name, argv, exp))
    if not db:
        return None
    with open(os.path.join(d, "cc.json"), "w") as f:
        json.dump(db, f)
    stats["evals"] += 1
    try:
        ents = config.load_database(os.path.join(d, "cc.json"), d)
    except Exception as e:  # noqa
        return (f"exception:{type(e).__name__}", f"load_database for {[e_['arguments'] for e_ in db]}: {e}")
    conf = {}
    for e in ents:
        k = int(re.search(r"main(\d+)\.c$", e["file"]).group(1))
        conf.setdefault(f"p{k}", []).append(e)
    st, cb, logs, err = cbi.run_find(d, conf)
    if err is not None:
        return (f"exception:{err[0]}", f"finder.find for {[e_['arguments'] for e_ in db]}: {err[1]}")
    for k, w in enumerate(wants):
        if w is None:
            continue
        want, name, argv, exp = w
        la = cbi.line_attr(st, os.path.join(d, f"main{k}.c")) or {}
        for ln, wv in want.items():
            used = ln in la and f"p{k}" in la[ln]
            if used != wv:
                return ("attribution-not-union-of-passes",
                        f"command {k} of one database: {name} {argv}: line `{lines[ln - 1]}` used={used} but the union of the "
                        f"expected passes {[c['pass'] for c in exp['configs']]} says {wv}")
    return None


def check_chunk(args):
    cases, workdir = args
    import warnings
    warnings.simplefilter("ignore")
    from codebasin import config
    fails = []
    stats = {"evals": 0, "nontrivial": 0}
    cwd = os.getcwd()
    for case in cases:
        core.tick(case, 300)
        d = tempfile.mkdtemp(prefix="c12-", dir=workdir)
        try:
            table = {n: dict(c, modes=as_dict(c["modes"]), passes=as_dict(c["passes"])) for n, c in case["table"].items()}
            write_config(d, table)
            os.chdir(d)
            config._compilers = None
            tfc = os.path.join(d, "pa.ndjson") if stats["evals"] % 8 == 0 else None
            tracer = cbi.tracing(tfc)
            tracer.__enter__()
            tg = tags_of(case)
            modecat = case["modecat"]
            # machinery self-check: the pre-split / pre-matched token fields agree with Python
            for h in case["hist"]:
                for t in h["argv"]:
                    if t["parts"] and t["val"].split(",") != t["parts"]:
                        raise core.MachineryError(f"token parts disagree with str.split: {t}")
                    if t["matches"] and re.findall(r"(?:sm_|compute_)(\d+)", t["val"]) != t["matches"] and \
                            re.findall(r"[a-z]+", t["val"]) != t["matches"]:
                        raise core.MachineryError(f"token matches disagree with re.findall: {t}")
            bad = None
            for k, (h, exp) in enumerate(zip(case["hist"], case["expect"])):
                argv = []
                for t in h["argv"]:
                    argv += tok_argv(t)
                stats["evals"] += 1
                if len(exp["configs"]) > 1:
                    stats["nontrivial"] += 1
                name = h["name"] if k % 2 == 0 else "/opt/bin/" + h["name"]
                with cbi.captured_logs() as lg:
                    try:
                        got = config.ArgumentParser(name).parse_args(list(argv))
                    except BaseException as e:  # noqa
                        if isinstance(e, (KeyboardInterrupt, SystemExit)):
                            raise
                        bad = (f"exception:{type(e).__name__}", f"command {k}: {name} {argv}: {e}")
                        break
                    recs = list(lg.records)
                gotd = {c.pass_name: c for c in got}
                wantd = {c["pass"]: c for c in exp["configs"]}
                if len(got) != len(gotd) or set(gotd) != set(wantd):
                    bad = ("passes-differ", f"command {k}: {name} {argv}: passes {sorted(gotd)} expected {sorted(wantd)}")
                    break
                for pn, w in wantd.items():
                    g = gotd[pn]
                    for field, gl, key in (("defines", g.defines, "defines"), ("include_paths", g.include_paths, "ipaths"),
                                           ("include_files", g.include_files, "ifiles")):
                        head = w[field if field == "defines" else key]
                        extra = collections.Counter()
                        for mn in w["modes"]:
                            extra.update(modecat[mn][key])
                        if list(gl[:len(head)]) != head or collections.Counter(gl[len(head):]) != extra:
                            bad = ("configuration-differs",
                                   f"command {k}: {name} {argv}: pass {pn} {field}={list(gl)} expected {head} + modes {dict(extra)}")
                            break
                    if bad:
                        break
                if bad:
                    break
                # outcomes must be reported
                msgs = " | ".join(m for lv, m in recs)
                oc = exp["outcome"]
                if oc == "loop" and "loop" not in msgs:
                    bad = ("outcome-not-reported", f"{name}: alias loop not reported: {msgs[:200]}")
                elif oc == "unknown-target" and "unrecognized" not in msgs:
                    bad = ("outcome-not-reported", f"{name}: dangling alias not reported: {msgs[:200]}")
                elif oc == "unknown" and "not recognized" not in msgs:
                    bad = ("outcome-not-reported", f"{name}: unknown compiler not reported: {msgs[:200]}")
                if bad:
                    break
            # end to end: a line is attributed to the platform iff ANY pass of the command uses it
            if not bad:
                bad = end_to_end(d, case, modecat, stats)
            if bad:
                fails.append(dict(layer="G", tags=sorted(tg), symptom=bad[0],
                                  detail=bad[1] + f"\nhistory={[(h['name'], [tok_argv(t) for t in h['argv']]) for h in case['hist']]}",
                                  case=case))
        finally:
            try:
                tracer.__exit__(None, None, None)
                if tfc and os.path.exists(tfc):
                    stats.setdefault("cfg_events", []).extend(trace_cfg.load_events(tfc, "generated", limit=40))
            except NameError:
                pass
            os.chdir(cwd)
            config._compilers = None
            shutil.rmtree(d, ignore_errors=True)
    return fails, stats


def _jobs(js):
    return [check_chunk(j) for j in js]


def builtin_table():
    """The four built-in definition files as a CompilerCfg table (mechanical conversion)."""
    import tomllib
    table = {}
    cdir = os.path.join(core.repo_path(), "codebasin", "compilers")
    for fn in sorted(os.listdir(cdir)):
        if not fn.endswith(".toml"):
            continue
        t = tomllib.load(open(os.path.join(cdir, fn), "rb"))
        for name, c in t["compiler"].items():
            def mode(m):
                return {"defines": m.get("defines", []), "ipaths": m.get("include_paths", []), "ifiles": m.get("include_files", [])}
            rules = []
            for r in c.get("parser", []):
                fmt = r.get("format", "$value")
                rules.append({"flags": r["flags"], "action": r["action"], "dest": r["dest"], "const": r.get("const", ""),
                              "prefix": fmt.replace("$value", ""), "hasdef": "default" in r, "default": r.get("default", []),
                              "override": bool(r.get("override", False)), "sep": r.get("sep", ","), "pattern": r.get("pattern", "")})
            opts = []
            for o in c.get("options", []):
                opts.append({"flag": "-D", "val": o[2:], "parts": [], "matches": []} if o.startswith("-D")
                            else {"flag": o, "val": "", "parts": [], "matches": []})
            table[name] = {"alias": c.get("alias_of", ""), "options": opts, "rules": rules,
                           "modes": {m["name"]: mode(m) for m in c.get("modes", [])},
                           "passes": {p["name"]: dict(mode(p), modes=p.get("modes", [])) for p in c.get("passes", [])}}
    return table


BUILTIN_FLAGS = {
    "gcc": ["-fopenmp"], "g++": ["-fopenmp"],
    "clang": ["-fopenmp", "-fsycl-is-device"], "clang++": ["-fopenmp", "-fsycl-is-device"],
    "icx": ["-fopenmp", "-fsycl", "-fsycl-targets=spir64", "-fsycl-targets=spir64_gen,spir64_x86_64",
            "-fsycl-targets=nvptx64-nvidia-cuda"],
    "icpx": ["-fopenmp", "-fsycl", "-fsycl-targets=spir64_fpga"],
    "nvcc": ["-fopenmp", "--gpu-architecture=sm_80", "--gpu-code=sm_75,sm_80", "-gencode=arch=compute_70,code=sm_70",
             "--gpu-architecture=compute_90"],
}


def T(flag, val=""):
    return {"flag": flag, "val": val, "parts": [], "matches": []}


# a user configuration that EXTENDS built-in compilers: repeated list elements in `options`, an extra rule and
# mode for gcc, an alias of a built-in compiler under a new name
USER_EXT = {
    "gcc": {"alias": "", "options": [T("-D", "UA"), T("-D", "UB"), T("-I", "/uinc"), T("-I", "/uinc2")],
            "rules": [{"flags": ["-fuser"], "action": "append_const", "dest": "modes", "const": "umode", "prefix": "",
                       "hasdef": False, "default": [], "override": False, "sep": ",", "pattern": ""}],
            "modes": {"umode": {"defines": ["UMODE"], "ipaths": [], "ifiles": []}}, "passes": {}},
    "nvcc": {"alias": "", "options": [T("-D", "NVU=1"), T("-D", "NVU2")], "rules": [], "modes": {}, "passes": {}},
    "mycc-1.0": {"alias": "gcc", "options": [], "rules": [], "modes": {}, "passes": {}},
}


BUILTIN_EVENTS = []


def builtin_check(ctx, user=None):
    """Every documented flag combination of the built-in compilers, judged by CompilerCfg.Parse.
    With `user`: the same under a .cbi/config that extends the built-in definitions (CompilerCfg.Extend)."""
    import itertools
    from codebasin import config
    table = builtin_table()
    cmds = []
    flagsets = dict(BUILTIN_FLAGS)
    if user:
        flagsets = {"gcc": ["-fopenmp", "-fuser"], "g++": ["-fopenmp"], "mycc-1.0": ["-fopenmp", "-fuser"],
                    "nvcc": BUILTIN_FLAGS["nvcc"][:3], "clang": ["-fopenmp"]}
    for name, flags in flagsets.items():
        base = name if name in table else user[name]["alias"]
        c = table[table[base]["alias"] or base]
        if user and (table[base]["alias"] or base) in user:
            c = dict(c, rules=c["rules"] + user[table[base]["alias"] or base]["rules"])
        for r_ in range(len(flags) + 1):
            for combo in itertools.combinations(flags, r_):
                argv = [{"flag": "-D", "val": "U=1", "parts": [], "matches": []}]
                for f in combo:
                    flag, _, val = f.partition("=")
                    rule = next((r for r in c["rules"] if flag in r["flags"]), None)
                    parts = val.split(rule["sep"]) if rule and rule["action"] == "store_split" else []
                    matches = re.findall(rule["pattern"], val) if rule and rule["action"] == "extend_match" else []
                    argv.append({"flag": flag, "val": val, "parts": parts, "matches": matches})
                cmds.append({"name": name, "argv": argv})
    os.makedirs(core.OUT, exist_ok=True)
    cf = os.path.join(core.OUT, f"builtin_{os.getpid()}.json")
    json.dump(dict({"table": table, "cmds": cmds}, **({"user": user} if user else {})), open(cf, "w"))
    try:
        r = core.tlc("EvalCompilerCfg", "EvalCompilerCfg.cfg", workers=1, timeout=900, env={"CFG_FILE": cf}, tag="builtin")
    finally:
        os.unlink(cf)
    ctx.add_tlc("EvalCompilerCfg (built-in definition files x documented flag combinations)" +
                (" extended by a user configuration" if user else ""), r)
    res = {j["idx"]: j["res"] for j in r.json if isinstance(j, dict) and "idx" in j}
    if len(res) != len(cmds):
        raise core.MachineryError(f"EvalCompilerCfg judged {len(res)} of {len(cmds)} commands")
    cwd = os.getcwd()
    d = tempfile.mkdtemp(prefix="c12b-", dir=ctx.scratch())
    os.chdir(d)
    if user:
        write_config(d, user)
    config._compilers = None
    tf = os.path.join(d, "parse_args.ndjson")
    try:
      with cbi.tracing(tf):
        for k, cmd in enumerate(cmds, start=1):
            argv = []
            for t in cmd["argv"]:
                argv += tok_argv(t)
            exp = res[k]
            ctx.cov["evaluations"] += 1
            try:
                got = config.ArgumentParser(cmd["name"]).parse_args(list(argv))
            except Exception as e:  # noqa
                ctx.fail("G", ["builtin", "exception"], f"exception:{type(e).__name__}", f"{cmd['name']} {argv}: {e}", cmd)
                continue
            gotd = {c.pass_name: c for c in got}
            wantd = {c["pass"]: c for c in exp["configs"]}
            bad = None
            if set(gotd) != set(wantd):
                bad = f"passes {sorted(gotd)} expected {sorted(wantd)}"
            else:
                bn = cmd["name"] if cmd["name"] in table else user[cmd["name"]]["alias"]
                bn = table[bn]["alias"] or bn
                mt = dict(table[bn]["modes"], **(user[bn]["modes"] if user and bn in user else {}))
                for pn, w in wantd.items():
                    extra = collections.Counter()
                    for mn in w["modes"]:
                        extra.update(mt[mn]["defines"])
                    g = gotd[pn]
                    if list(g.defines[:len(w["defines"])]) != w["defines"] or collections.Counter(g.defines[len(w["defines"]):]) != extra:
                        bad = f"pass {pn} defines {g.defines} expected {w['defines']} + modes {dict(extra)}"
                        break
                    if list(g.include_paths[:len(w["ipaths"])]) != w["ipaths"]:
                        bad = f"pass {pn} include paths {g.include_paths} expected to start with {w['ipaths']}"
                        break
            if bad:
                ctx.fail("G", ["builtin"], "builtin-configuration-differs", f"{cmd['name']} {argv}: {bad}", cmd)
      if os.path.exists(tf):
          BUILTIN_EVENTS.extend(trace_cfg.load_events(tf, "builtin+user" if user else "builtin"))
    finally:
        os.chdir(cwd)
        config._compilers = None
    ctx.cov["builtin_commands"] = len(cmds)


def run(ctx):
    q = ctx.quick
    os.makedirs(core.OUT, exist_ok=True)
    p = os.path.join(core.OUT, f"GenCompilerCfg_M_{os.getpid()}.cfg")
    open(p, "w").write(CFG.format(profile="q", shard=1, nshards=1) + "INVARIANT HistoryIndependent\nINVARIANT AliasTotal\n")
    try:
        r = core.tlc("GenCompilerCfg", p, workers=runner.NCPU, timeout=900, tag="C12M", heap="4g",
                     simulate=f"num={400 if q else 20000}", depth=20, seed=ctx.seed + 2)
    finally:
        os.unlink(p)
    ctx.add_tlc("GenCompilerCfg HistoryIndependent/AliasTotal (simulated configurations x histories)", r)
    if r.violation:
        ctx.model_violation("GenCompilerCfg", r)
    hcases = runner.sharded_tlc(ctx, "GenCompilerCfg", CFG.format(profile="h", shard="@SHARD@", nshards="@NSHARDS@"), 8,
                                "GenCompilerCfg_h", timeout=900)
    cases = runner.sharded_tlc(ctx, "GenCompilerCfg", CFG.format(profile="q" if q else "t", shard=0, nshards=1), 16,
                               "GenCompilerCfg", timeout=900, simulate=f"num={150 if q else 3000}", depth=20,
                               seed=ctx.seed + 61)
    seen, allc = set(), []
    ctx.cov["history_profile_cases"] = len(hcases)
    for c in hcases + cases:
        k = json.dumps([c["table"], c["hist"]], sort_keys=True)
        if k not in seen:
            seen.add(k)
            allc.append(c)
    if not allc:
        raise core.MachineryError("no configurations generated")
    ctx.cov["rule"] = (
        "TLC-simulated user configurations: each of 4 compiler names is undefined, an alias (of any name incl. itself and a "
        "name that does not exist) or a compiler built from a rule subset (append_const to modes/passes/defines, "
        "store_split with and without default, extend_match with override+default, with default and no override, into "
        "defines), one of 4 implicit-option lists, 2 modes and 7 passes (one naming an unknown mode); followed by a history "
        "of 2 commands of <= 2 options each addressed to any name (or an unknown one). The real ArgumentParser processes "
        "the history in one process with the generated .cbi/config; every result is compared with CompilerCfg.Parse. "
        "Plus, exhaustively (profile h): 2 names (undefined / the full rule set / alias), every history of 2 commands of <= 1 "
        "option drawn from the pass-selecting options, also as ONE compilation database through load_database + finder.find "
        "with probes by macro value. "
        "non-trivial = more than one pass is expected")
    ctx.cov["configurations"] = len(allc)
    c0 = allc[len(allc) // 2]
    ctx.sample({"table": {n: (c["alias"] or [r["flags"][0] for r in c["rules"]]) for n, c in c0["table"].items()},
                "history": [(h["name"], [tok_argv(t) for t in h["argv"]]) for h in c0["hist"]],
                "expected_passes": [[c["pass"] for c in e["configs"]] for e in c0["expect"]]})
    builtin_check(ctx)
    builtin_check(ctx, user=USER_EXT)
    work = ctx.scratch()
    jobs = [(c, work) for c in runner.chunks(allc, runner.NCPU * 2)]
    events = list(BUILTIN_EVENTS)
    for lst in runner.pmap(_jobs, jobs, chunk=1):
        for fails, stats in lst:
            ctx.cov["evaluations"] += stats["evals"]
            ctx.cov["distinct_nontrivial"] += stats["nontrivial"]
            events.extend(stats.get("cfg_events", []))
            for f in fails:
                ctx.fail(f["layer"], f["tags"], f["symptom"], f["detail"], f["case"])
    # V: recorded executions of parse_args - the built-in flag combinations above, a sample of the generated
    # configurations, and every call the repository's own test suite makes - judged by Trace_Cfg.tla
    from . import C01
    dirs = []
    try:
        for tf, ident in C01.suite_traces(ctx, dirs):
            events.extend(trace_cfg.load_events(tf, ident))
    finally:
        for dd in dirs:
            shutil.rmtree(dd, ignore_errors=True)
    trace_cfg.validate(ctx, events, tag="C12cfg")


def replay(ctx, path):
    c = json.load(open(os.path.join(path, "case.json")))
    print(json.dumps(c, indent=1)[:3000])
    if c.get("case"):
        fails, _ = check_chunk(([c["case"]], ctx.scratch()))
        for f in fails:
            print("REPRODUCED:", f["symptom"], f["detail"])
            ctx.fail(f["layer"], f["tags"], f["symptom"], f["detail"], f["case"])
    ctx.cov["evaluations"] = 1
