"""
Shared plumbing for every check: context, TLC runner, evidence, known findings,
verdict protocol.  Stdlib only; runs under /venv/bin/python.
"""
import hashlib
import json
import os
import re
import shutil
import subprocess
import sys
import tempfile
import time

VERIF = os.path.dirname(os.path.dirname(os.path.abspath(__file__)))
SPECS = os.path.join(VERIF, "specs")
OUT = os.path.join(VERIF, "out")
EVID = os.environ.get("VERIF_EVID") or os.path.join(VERIF, "evidence")
TLA_CP = "/opt/veriftools/tla/tla2tools.jar:/opt/veriftools/tla/CommunityModules-deps.jar"


class Hang(BaseException):
    """Raised (by SIGALRM) inside the code under test when one case exceeds its time budget."""


class HangDetected(Exception):
    """A worker reported cases on which the implementation did not terminate (or exhausted memory)."""

    def __init__(self, items):
        super().__init__(f"{len(items)} case(s) did not terminate")
        self.items = items          # [(kind, seconds, case)]


_WATCH = {"case": None, "limit": 0, "installed": False, "guarded": False, "fired": 0}


def _on_alarm(signum, frame):
    _WATCH["fired"] += 1
    raise Hang(f"no result after {_WATCH['limit']}s")


def tick(case=None, seconds=120):
    """Start the time budget of the next case (call at the top of every per-case loop iteration).
    The budget is wall-clock and generous: a case normally takes milliseconds to a few seconds."""
    import signal
    import threading
    if threading.current_thread() is not threading.main_thread() or not _WATCH["guarded"]:
        return                      # only inside runner.pmap, which collects the outcome
    if not _WATCH["installed"]:
        signal.signal(signal.SIGALRM, _on_alarm)
        _WATCH["installed"] = True
    if _WATCH["fired"] >= 2:
        # two cases of this chunk already ran out of time (and the harness went on): stop here
        raise Hang("repeated")
    _WATCH["case"] = case
    _WATCH["limit"] = seconds
    signal.setitimer(signal.ITIMER_REAL, seconds)


def untick():
    import signal
    import threading
    if threading.current_thread() is threading.main_thread() and _WATCH["installed"]:
        signal.setitimer(signal.ITIMER_REAL, 0)
    _WATCH["case"] = None


def current_case():
    return _WATCH["case"], _WATCH["limit"]


def run_impl(cmd, timeout, **kw):
    """subprocess.run of an implementation entry point: a run that does not come back within the (generous)
    budget is an outcome to be judged (returncode -999), not a failure of the machinery."""
    import subprocess
    try:
        return subprocess.run(cmd, timeout=timeout, **kw)
    except subprocess.TimeoutExpired as e:
        out = e.stdout or ""
        if isinstance(out, bytes):
            out = out.decode("utf-8", "replace")
        return subprocess.CompletedProcess(cmd, -999, out + f"\n[no result after {timeout}s]", "")


class MachineryError(Exception):
    """Something in the verification machinery itself failed (exit 2)."""


def repo_path():
    return os.path.abspath(os.environ.get("CBI_REPO", "/repo"))


def use_repo():
    """Make `import codebasin` resolve to $CBI_REPO's working tree."""
    rp = repo_path()
    if sys.path[0] != rp:
        sys.path.insert(0, rp)
    os.environ["PYTHONPATH"] = rp + os.pathsep + os.environ.get("PYTHONPATH", "")
    import warnings

    warnings.filterwarnings("ignore", category=DeprecationWarning)
    import logging
    lg = logging.getLogger("codebasin")
    lg.addHandler(logging.NullHandler())
    lg.propagate = False
    import codebasin  # noqa

    got = os.path.dirname(os.path.dirname(os.path.abspath(codebasin.__file__)))
    if os.path.realpath(got) != os.path.realpath(rp):
        raise MachineryError(f"codebasin imported from {got}, wanted {rp}")


class TlcResult:
    def __init__(self):
        self.states = 0  # distinct states
        self.generated = 0  # states generated (= transitions explored)
        self.depth = 0
        self.lines = []  # raw stdout lines
        self.json = []  # parsed JSON values printed by PrintT(ToJson(..))
        self.ok = False  # finished without error
        self.violation = None  # invariant name / message if TLC found one
        self.stdout = ""
        self.wall = 0.0
        self.coverage = {}


_RE_STATS = re.compile(
    r"(\d+) states generated, (\d+) distinct states found, (\d+) states left on queue"
)
_RE_DEPTH = re.compile(r"The depth of the complete state graph search is (\d+)")


def parse_printed(stdout):
    """
    Extract JSON documents printed with PrintT(ToJson(x)): TLC prints the TLA+
    string value in quotes with backslash escapes.  One per line.
    """
    out = []
    for line in stdout.splitlines():
        line = line.strip()
        if len(line) >= 2 and line[0] == '"' and line[-1] == '"' and line[1] in "{[":
            body = line[1:-1]
            # TLC escapes: \" and \\ inside printed strings
            try:
                s = json.loads('"' + body + '"')
                out.append(json.loads(s))
            except Exception:
                try:
                    out.append(json.loads(body.replace('\\"', '"').replace("\\\\", "\\")))
                except Exception as e:  # pragma: no cover
                    raise MachineryError(f"cannot parse TLC output line: {line[:200]} ({e})")
    return out


def tlc(
    module,
    cfg=None,
    *,
    workers=1,
    timeout=600,
    simulate=None,
    depth=None,
    seed=None,
    env=None,
    extra=(),
    tag=None,
    coverage=False,
    deadlock=False,
    cwd=SPECS,
    dfs=False,
    heap="4g",
):
    """
    Run TLC on specs/<module>.tla with specs/<cfg>.  Returns TlcResult.
    A TLC-detected invariant/property violation is reported in .violation
    (not raised); anything else non-zero raises MachineryError.
    """
    os.makedirs(OUT, exist_ok=True)
    meta = tempfile.mkdtemp(prefix=f"tlc-{tag or module}-", dir=OUT)
    cmd = ["java", "-XX:+UseParallelGC", f"-Xmx{heap}", "-Xss128m"]
    if dfs:
        cmd.append("-Dtlc2.tool.queue.IStateQueue=StateDeque")
    cmd += ["-cp", TLA_CP, "tlc2.TLC", "-metadir", meta, "-noGenerateSpecTE"]
    cmd += ["-workers", str(workers)]
    if cfg:
        cmd += ["-config", cfg]
    if not deadlock:
        cmd += ["-deadlock"]
    if simulate is not None:
        cmd += ["-simulate", simulate]
    if depth is not None:
        cmd += ["-depth", str(depth)]
    if seed is not None:
        cmd += ["-seed", str(seed)]
    if coverage:
        cmd += ["-coverage", "1"]
    cmd += list(extra)
    cmd.append(module if module.endswith(".tla") else module + ".tla")
    e = dict(os.environ)
    if env:
        e.update({k: str(v) for k, v in env.items()})
    t0 = time.time()
    try:
        p = subprocess.run(
            cmd, cwd=cwd, env=e, stdout=subprocess.PIPE, stderr=subprocess.STDOUT,
            timeout=timeout, text=True, errors="replace",
        )
        out, rc = p.stdout, p.returncode
    except subprocess.TimeoutExpired as te:
        out = te.stdout if isinstance(te.stdout, str) else (te.stdout or b"").decode(errors="replace")
        rc = -9
        if simulate is None:
            shutil.rmtree(meta, ignore_errors=True)
            raise MachineryError(f"TLC timed out after {timeout}s on {module}/{cfg}")
    finally:
        shutil.rmtree(meta, ignore_errors=True)
    r = TlcResult()
    r.wall = time.time() - t0
    r.stdout = out
    r.lines = out.splitlines()
    for m in _RE_STATS.finditer(out):
        r.generated, r.states = int(m.group(1)), int(m.group(2))
    if simulate is not None:
        ms = re.search(r"The number of states generated: (\d+)", out)
        if ms:
            r.generated = r.states = int(ms.group(1))
    m = _RE_DEPTH.search(out)
    if m:
        r.depth = int(m.group(1))
    r.json = parse_printed(out)
    if "is violated" in out or "Error: Invariant" in out or "Error: Action property" in out \
            or "Temporal properties were violated" in out or "Error: Deadlock reached" in out:
        m = re.search(r"Error: (Invariant \S+ is violated|Action property \S+ is violated|Deadlock reached|Temporal properties were violated)[^\n]*", out)
        r.violation = m.group(0) if m else "violation"
        return r
    if rc == 0 or (simulate is not None and rc in (-9,)):
        if "Error:" in out and rc == 0:
            raise MachineryError(f"TLC reported an error on {module}/{cfg}:\n" + _tail(out))
        r.ok = True
        return r
    if simulate is not None and "Finished" not in out and rc != 0 and "Error:" not in out:
        r.ok = True
        return r
    try:
        with open(os.path.join(OUT, "last_tlc_error.txt"), "w") as f:
            f.write(out)
    except OSError:
        pass
    raise MachineryError(f"TLC failed (rc={rc}) on {module}/{cfg}:\n" + _tail(out))


def _tail(s, n=40):
    ls = [x for x in s.splitlines() if not re.match(r"^\d+\. Line", x)]
    i = next((k for k, x in enumerate(ls) if x.startswith("Error:")), None)
    head = ls[i:i + 12] if i is not None else []
    return "\n".join(head + ["..."] + ls[-n:])


# ----------------------------------------------------------------------------------------
# known findings

def load_findings():
    p = os.path.join(VERIF, "known_findings.json")
    if not os.path.exists(p):
        return {"known": [], "fixed": []}
    with open(p) as f:
        return json.load(f)


class Failure:
    """One failing case: tags describe the abstract input, symptom describes the failure."""

    def __init__(self, prop, layer, tags, symptom, detail, case=None):
        self.prop = prop
        self.layer = layer
        self.tags = set(tags)
        self.symptom = symptom
        self.detail = detail
        self.case = case

    def key(self):
        return (self.layer, tuple(sorted(self.tags)), self.symptom)


def match_finding(failure, findings):
    """
    A known finding matches iff property and layer are equal, every tag in its
    `match` list is among the failure's tags, and its symptom regex matches.
    """
    for k in findings.get("known", []):
        if k["property"] != failure.prop:
            continue
        if k.get("layer") and k["layer"] != failure.layer:
            continue
        if not set(k["match"]) <= failure.tags:
            continue
        if not re.search(k["symptom"], failure.symptom):
            continue
        return k
    return None


# ----------------------------------------------------------------------------------------
# context

class Ctx:
    def __init__(self, prop, tier, seed):
        self.prop = prop
        self.tier = tier
        self.seed = seed
        self.t0 = time.time()
        self.failures = []
        self.cov = {
            "states": 0, "transitions": 0, "traces_validated_against_impl": 0,
            "evaluations": 0, "distinct_nontrivial": 0, "samples": [],
            "rule": "", "exhaustive": False, "tlc_runs": [], "oracle_disagreements": 0,
        }
        self.assumptions = []
        self.level = "model_checking"
        self.tmp = None

    quick = property(lambda self: self.tier == "quick")

    def scratch(self):
        if self.tmp is None:
            base = "/dev/shm" if os.path.isdir("/dev/shm") else None
            self.tmp = tempfile.mkdtemp(prefix=f"cbiverif-{self.prop}-", dir=base)
        return self.tmp

    def cleanup(self):
        if self.tmp:
            shutil.rmtree(self.tmp, ignore_errors=True)
            self.tmp = None

    def add_tlc(self, name, r, note=""):
        self.cov["states"] += r.states
        self.cov["transitions"] += r.generated
        self.cov["tlc_runs"].append({
            "run": name, "distinct_states": r.states, "states_generated": r.generated,
            "depth": r.depth, "wall_s": round(r.wall, 2), "printed_cases": len(r.json), "note": note,
        })

    def sample(self, x, limit=6):
        if len(self.cov["samples"]) < limit:
            self.cov["samples"].append(x)

    def fail(self, layer, tags, symptom, detail, case=None):
        self.failures.append(Failure(self.prop, layer, tags, symptom, detail, case))

    def model_violation(self, name, r):
        """A TLC-found violation in a design model is reported as a failure of layer 'M'."""
        self.fail("M", [f"model={name}"], r.violation or "violation", _tail(r.stdout, 60))

    # -- finishing ------------------------------------------------------------------
    def write_replay(self, failure):
        h = hashlib.sha1(repr(failure.key()).encode() + repr(failure.case).encode()).hexdigest()[:12]
        d = os.path.join(OUT, "replays", self.prop, h)
        os.makedirs(d, exist_ok=True)
        with open(os.path.join(d, "case.json"), "w") as f:
            json.dump({"property": self.prop, "layer": failure.layer, "tags": sorted(failure.tags),
                       "symptom": failure.symptom, "detail": failure.detail, "case": failure.case},
                      f, indent=1, default=str)
        return d

    def finish(self):
        findings = load_findings()
        known_hits = {}
        violations = []
        for fl in self.failures:
            k = match_finding(fl, findings)
            if k is not None:
                known_hits.setdefault(k["id"], [k, 0, fl])
                known_hits[k["id"]][1] += 1
            else:
                violations.append(fl)
        for kid, (k, n, fl) in sorted(known_hits.items()):
            print(f"KNOWN-FINDING: property={self.prop} {kid}: {k['note']} ({n} case(s) this run)")
        seen = set()
        nviol = 0
        for fl in violations:
            if fl.key() in seen:
                continue
            seen.add(fl.key())
            nviol += 1
            if nviol > 25:
                continue
            d = self.write_replay(fl)
            print(f"  failing[{fl.layer}] tags={sorted(fl.tags)} symptom={fl.symptom}")
            print(f"  detail: {str(fl.detail)[:600]}")
            print(f"VIOLATION property={self.prop} replay={d}")
        cov = dict(self.cov)
        cov["known_findings_hit"] = {k: v[1] for k, v in known_hits.items()}
        cov["failing_cases"] = len(self.failures)
        if cov["states"] == 0:
            cov.pop("states"); cov.pop("transitions")
        ev = {
            "property_id": self.prop, "tier": self.tier, "seed": self.seed, "level": self.level,
            "coverage": cov, "assumptions": self.assumptions,
            "wall_s": round(time.time() - self.t0, 2), "violations": nviol,
        }
        os.makedirs(EVID, exist_ok=True)
        with open(os.path.join(EVID, f"{self.prop}.json"), "w") as f:
            json.dump(ev, f, indent=1, default=str)
        self.cleanup()
        print(f"[{self.prop}] tier={self.tier} seed={self.seed} states={self.cov['states']} "
              f"evaluations={self.cov['evaluations']} traces={self.cov['traces_validated_against_impl']} "
              f"failing={len(self.failures)} violations={nviol} wall={ev['wall_s']}s")
        return 1 if nviol else 0
