"""`./check setup`: parse every specification with SANY so a broken spec is caught at setup."""
import glob
import os
import subprocess
import sys

from . import core


def main():
    bad = 0
    for p in sorted(glob.glob(os.path.join(core.SPECS, "*.tla"))):
        r = subprocess.run(
            ["java", "-cp", core.TLA_CP, "tla2sany.SANY", os.path.basename(p)],
            cwd=core.SPECS, stdout=subprocess.PIPE, stderr=subprocess.STDOUT, text=True)
        ok = r.returncode == 0 and "*** Errors" not in r.stdout and "Fatal errors" not in r.stdout
        print(("ok   " if ok else "FAIL ") + os.path.basename(p))
        if not ok:
            print(r.stdout[-2000:])
            bad += 1
    os.makedirs(core.OUT, exist_ok=True)
    os.makedirs(core.EVID, exist_ok=True)
    return 1 if bad else 0
