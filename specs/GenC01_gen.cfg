SPECIFICATION Spec
CONSTANTS
  MaxDir = 4
  MaxNest = 2
  Shard = 0
  NShards = 1
  EvalElifFirst = FALSE
  Rich = FALSE
CHECK_DEADLOCK FALSE
