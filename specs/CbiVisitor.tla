--------------------------- MODULE CbiVisitor ---------------------------
(***************************************************************************)
(* Implementation model of how CBI decides which nodes of ONE file a       *)
(* platform uses.  Structured like the code:                               *)
(*   - SourceTree.insert / walk_to_tree_insertion_point build a tree in    *)
(*     which the body of #if/#elif/#else is the node's children and the    *)
(*     continuation/end directives are SIBLINGS of the #if;                *)
(*   - ParserState.associate visits the tree in pre-order with the         *)
(*     closure `associator`, a stack `branch_taken`, and the two visitor   *)
(*     results Visit.NEXT / Visit.NEXT_SIBLING.                            *)
(* Items are those of PreprocCore (single file: no include items).         *)
(***************************************************************************)
EXTENDS Naturals, Sequences, FiniteSets, PreprocCore

CONSTANT EvalElifFirst   \* TRUE: #elif is evaluated before branch_taken is consulted
                         \* (the code before the fix); FALSE: after.

IsStart(it) == it.k = "if"
IsCont(it)  == it.k \in {"elif", "else"}
IsEnd(it)   == it.k = "endif"

\* ---- tree construction: parent[i] for i in 1..n, 0 is the root -------------------------
\* state of the builder: [parent : Seq(Nat), latest : Nat, bad : BOOLEAN]
RECURSIVE WalkBack(_, _, _)
WalkBack(items, parent, latest) ==   \* walk_to_tree_insertion_point
  IF latest = 0 THEN 0
  ELSE IF IsStart(items[latest]) \/ IsCont(items[latest]) THEN latest
  ELSE LET up == parent[latest] IN
       IF up = 0 THEN 0 ELSE WalkBack(items, parent, up)

InsertOne(items, b, i) ==
  LET it == items[i]
      l  == b.latest
      openL == l # 0 /\ (IsStart(items[l]) \/ IsCont(items[l]))
  IN
  IF l = 0 THEN [parent |-> Append(b.parent, 0), latest |-> i, bad |-> b.bad]
  ELSE IF IsCont(it) \/ IsEnd(it)
       THEN LET w == WalkBack(items, b.parent, l) IN
            IF w = 0 THEN [parent |-> Append(b.parent, 0), latest |-> i, bad |-> TRUE]
            ELSE [parent |-> Append(b.parent, b.parent[w]), latest |-> i, bad |-> b.bad]
       ELSE \* start nodes and plain nodes: child of an open start/cont node, else sibling
            [parent |-> Append(b.parent, IF openL THEN l ELSE b.parent[l]), latest |-> i, bad |-> b.bad]

RECURSIVE BuildFrom(_, _, _)
BuildFrom(items, b, i) ==
  IF i > Len(items) THEN b ELSE BuildFrom(items, InsertOne(items, b, i), i + 1)

Build(items) == BuildFrom(items, [parent |-> <<>>, latest |-> 0, bad |-> FALSE], 1)

Kids(parent, n) == SelectSeq([i \in 1..Len(parent) |-> i], LAMBDA i : parent[i] = n)

\* ---- the visitor ------------------------------------------------------------------------
\* vs : [defs, bt : Seq(BOOLEAN), attr : SUBSET Nat, evald : SUBSET Nat, err : BOOLEAN]
\* Evaluate(node) -> [active, vs]
Evaluate(items, n, vs) ==
  LET it == items[n] IN
  CASE it.k \in {"if", "elif"} ->
         LET t == Truth(it.c, vs.defs) IN
         [active |-> t.v, vs |-> [vs EXCEPT !.evald = vs.evald \cup {n}, !.err = vs.err \/ t.err]]
    [] it.k = "else" -> [active |-> TRUE, vs |-> vs]
    [] it.k = "define" ->
         [active |-> FALSE,
          vs |-> [vs EXCEPT !.defs = IF vs.defs[it.m] = "U" THEN [vs.defs EXCEPT ![it.m] = it.v] ELSE vs.defs]]
    [] it.k = "undef" -> [active |-> FALSE, vs |-> [vs EXCEPT !.defs = [vs.defs EXCEPT ![it.m] = "U"]]]
    [] OTHER -> [active |-> FALSE, vs |-> vs]     \* code, endif, once, unknown

\* associator(node) -> [descend : BOOLEAN, vs]
Associator(items, n, vs0) ==
  LET it == items[n]
      vs1 == [vs0 EXCEPT !.attr = vs0.attr \cup {n}]
  IN
  IF IsCont(it) /\ ~EvalElifFirst /\ vs1.bt # <<>> /\ Top(vs1.bt)
  THEN [descend |-> FALSE, vs |-> vs1]
  ELSE
  LET ev == Evaluate(items, n, vs1)
      a  == ev.active
      v  == ev.vs
  IN
  IF IsStart(it) THEN [descend |-> a, vs |-> [v EXCEPT !.bt = Append(v.bt, a)]]
  ELSE IF IsCont(it) THEN
       IF v.bt = <<>> THEN [descend |-> FALSE, vs |-> [v EXCEPT !.err = TRUE]]
       ELSE IF Top(v.bt) THEN [descend |-> FALSE, vs |-> v]
       ELSE [descend |-> a, vs |-> [v EXCEPT !.bt = SetTop(v.bt, a)]]
  ELSE IF IsEnd(it) THEN
       IF v.bt = <<>> THEN [descend |-> FALSE, vs |-> [v EXCEPT !.err = TRUE]]
       ELSE [descend |-> a, vs |-> [v EXCEPT !.bt = Pop(v.bt)]]
  ELSE [descend |-> a, vs |-> v]

RECURSIVE VisitNode(_, _, _, _), VisitKids(_, _, _, _)
VisitNode(items, parent, n, vs) ==
  LET r == Associator(items, n, vs) IN
  IF r.descend THEN VisitKids(items, parent, Kids(parent, n), r.vs) ELSE r.vs
VisitKids(items, parent, ks, vs) ==
  IF ks = <<>> THEN vs
  ELSE VisitKids(items, parent, Tail(ks), VisitNode(items, parent, Head(ks), vs))

\* associate(file, platform): the FileNode (root) is always active
Associate(items, defs) ==
  LET b == Build(items) IN
  VisitKids(items, b.parent, Kids(b.parent, 0),
            [defs |-> defs, bt |-> <<>>, attr |-> {}, evald |-> {}, err |-> b.bad])
==========================================================================
