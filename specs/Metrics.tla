------------------------------ MODULE Metrics ------------------------------
(***************************************************************************)
(* C07: the published definitions of CBI's metrics on a platform-set table *)
(* (setmap : [SUBSET Platform -> Nat], lines per exact platform set), with *)
(* exact rational arithmetic.  A rational is <<num, den>> with den > 0,    *)
(* reduced; NaN is <<0, 0>>.                                               *)
(*   Coverage(T, S)      = 100 * lines used by >= 1 platform of S / lines  *)
(*   AvgCoverage(T, S)   = mean over p in S of Coverage(T, {p})            *)
(*   Distance(T, p, q)   = |A symdiff B| / |A union B|  (Jaccard distance  *)
(*                         of the line sets of p and q)                    *)
(*   Divergence(T)       = mean of Distance over unordered platform pairs  *)
(* undefined (NaN): no lines at all; no platforms; neither of two DISTINCT *)
(* platforms uses a line (distance); fewer than two platforms (divergence).*)
(***************************************************************************)
EXTENDS Naturals, Integers, Sequences, FiniteSets, TLC

NaN == <<0, 0>>
IsNaN(r) == r[2] = 0

RECURSIVE Gcd(_, _)
Gcd(a, b) == IF b = 0 THEN a ELSE Gcd(b, a % b)
Norm(n, d) == IF d = 0 THEN NaN ELSE LET g == Gcd(n, d) IN IF g = 0 THEN <<0, 1>> ELSE <<n \div g, d \div g>>
RAdd(a, b) == IF IsNaN(a) \/ IsNaN(b) THEN NaN ELSE Norm(a[1] * b[2] + b[1] * a[2], a[2] * b[2])
RDivN(a, n) == IF IsNaN(a) \/ n = 0 THEN NaN ELSE Norm(a[1], a[2] * n)
RLe(a, b) == a[1] * b[2] <= b[1] * a[2]

\* sum of a Nat-valued function over its (finite) domain
RECURSIVE SumF(_)
SumF(f) == IF DOMAIN f = {} THEN 0
           ELSE LET x == CHOOSE x \in DOMAIN f : TRUE IN f[x] + SumF([y \in DOMAIN f \ {x} |-> f[y]])

Keys(T) == DOMAIN T
Total(T) == SumF(T)
PlatformsOf(T) == UNION Keys(T)
UsedBy(T, S) == SumF([k \in Keys(T) |-> IF k \cap S # {} THEN T[k] ELSE 0])

Coverage(T, S) == IF Total(T) = 0 THEN NaN ELSE Norm(100 * UsedBy(T, S), Total(T))

\* sum of a rational-valued function over its domain
RECURSIVE RSumF(_)
RSumF(f) == IF DOMAIN f = {} THEN <<0, 1>>
            ELSE LET x == CHOOSE x \in DOMAIN f : TRUE IN RAdd(f[x], RSumF([y \in DOMAIN f \ {x} |-> f[y]]))

AvgCoverage(T, S) == IF S = {} \/ Total(T) = 0 THEN NaN
                     ELSE RDivN(RSumF([p \in S |-> Coverage(T, {p})]), Cardinality(S))

Distance(T, p, q) ==
  LET un == SumF([k \in Keys(T) |-> IF p \in k \/ q \in k THEN T[k] ELSE 0])
      sd == SumF([k \in Keys(T) |-> IF (p \in k) # (q \in k) THEN T[k] ELSE 0])
  IN IF p = q THEN <<0, 1>>            \* zero on the diagonal, always
     ELSE IF un = 0 THEN NaN ELSE Norm(sd, un)

Pairs(S) == {pq \in SUBSET S : Cardinality(pq) = 2}
Divergence(T) ==
  LET P == PlatformsOf(T) IN
  IF Cardinality(P) < 2 THEN NaN
  ELSE LET D(pq) == LET p == CHOOSE x \in pq : TRUE IN LET q == CHOOSE y \in pq : y # p IN Distance(T, p, q)
       IN RDivN(RSumF([pq \in Pairs(P) |-> D(pq)]), Cardinality(Pairs(P)))
============================================================================
