SPECIFICATION Spec
CONSTANTS
  KeyKind = "full"
  MaxLookups = 3
INVARIANT ImplEqualsRef
CHECK_DEADLOCK FALSE
