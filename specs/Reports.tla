------------------------------ MODULE Reports ------------------------------
(***************************************************************************)
(* C06: what the three front ends must show for a given per-line           *)
(* attribution.  Input: `lines`, a set of records                          *)
(*    [f : FileId, path : Seq(STRING) (directories from the root, then     *)
(*     the file name), i : line, ps : SUBSET Platform]                     *)
(* one per counted line of every code-base file (each line has exactly one *)
(* platform set: the set of ALL platforms that use it).                    *)
(*   Tab(L)            platform-set table of a set of lines                *)
(*   Summary           rows = Tab(all lines); total = SLOC                 *)
(*   Node(prefix)      figures of the tree row for a directory/file path   *)
(*   Pruned            lines of files used by at least one platform        *)
(*   CovExport(f)      partition of a file's lines into used / unused      *)
(* Percentages and coverages are exact rationals (module Metrics).         *)
(***************************************************************************)
EXTENDS Naturals, Sequences, FiniteSets, TLC, Metrics

Tab(L) == [S \in {l.ps : l \in L} |-> Cardinality({l \in L : l.ps = S})]
Sloc(L) == Cardinality(L)
Under(L, prefix) == {l \in L : Len(l.path) >= Len(prefix) /\ SubSeq(l.path, 1, Len(prefix)) = prefix}

\* the figures cbi-tree prints for one row; RP = platforms of the (possibly pruned) root
Figures(L, RP) ==
  [sloc |-> Sloc(L), plats |-> UNION {l.ps : l \in L},
   cov |-> IF L = {} THEN NaN ELSE Coverage(Tab(L), RP),
   avg |-> IF L = {} THEN NaN ELSE AvgCoverage(Tab(L), RP)]

FilesOf(L) == {l.f : l \in L}
UsedFiles(L) == {f \in FilesOf(L) : \E l \in L : l.f = f /\ l.ps # {}}
Pruned(L) == {l \in L : l.f \in UsedFiles(L)}

Prefixes(L) == UNION {{SubSeq(l.path, 1, k) : k \in 0..Len(l.path)} : l \in L}
Tree(L) == LET RP == UNION {l.ps : l \in L} IN [p \in Prefixes(L) |-> Figures(Under(L, p), RP)]

CovExport(L, f) == [used |-> {l.i : l \in {x \in L : x.f = f /\ x.ps # {}}},
                    unused |-> {l.i : l \in {x \in L : x.f = f /\ x.ps = {}}}]

\* ---- the identities the property states, on the definitions themselves ----------------------
\* sum of a table = number of lines: every line is in exactly one platform set
RowsPartition(L) == SumF(Tab(L)) = Sloc(L)
\* a directory's table is the sum of the tables of the entries directly beneath it
ChildrenOf(L, p) == {q \in Prefixes(L) : Len(q) = Len(p) + 1 /\ SubSeq(q, 1, Len(p)) = p}
DirIsSumOfChildren(L) ==
  \A p \in Prefixes(L) : ChildrenOf(L, p) # {} =>
      /\ Sloc(Under(L, p)) = SumF([q \in ChildrenOf(L, p) |-> Sloc(Under(L, q))])
      /\ \A S \in DOMAIN Tab(Under(L, p)) :
            Tab(Under(L, p))[S] = SumF([q \in ChildrenOf(L, p) |->
                                         IF S \in DOMAIN Tab(Under(L, q)) THEN Tab(Under(L, q))[S] ELSE 0])
RootIsSummary(L) == Tab(Under(L, <<>>)) = Tab(L)
PruneDropsExactlyUnused(L) ==
  /\ FilesOf(L) \ FilesOf(Pruned(L)) = {f \in FilesOf(L) : \A l \in L : l.f = f => l.ps = {}}
  /\ \A l \in Pruned(L) : l \in L
UsedUnusedPartition(L) ==
  \A f \in FilesOf(L) : LET c == CovExport(L, f) IN
      c.used \cap c.unused = {} /\ c.used \cup c.unused = {l.i : l \in {x \in L : x.f = f}}
============================================================================
