----------------------------- MODULE Duplicates -----------------------------
(***************************************************************************)
(* C16.  Reference: the duplicates report lists exactly the equivalence    *)
(* classes of size >= 2 of "byte-identical content" among the regular      *)
(* (non-symlink) files of the code base.                                   *)
(*                                                                         *)
(* Implementation model (report.find_duplicates): files are bucketed by a  *)
(* digest; inside each bucket with more than one file a loop pops an       *)
(* ARBITRARY file, compares it byte-wise with every remaining one, removes *)
(* the matches and records them if there is more than one.  The model      *)
(* makes two things explicit that the code leaves to chance:               *)
(*   - the digest is ANY function of the content (collisions allowed),     *)
(*   - the pop order is ANY order.                                         *)
(* TLC explores every content assignment, every digest and every pop order *)
(* and checks that the result is always the reference partition.           *)
(*                                                                         *)
(* The same module is the generator for the conformance harness: Emit      *)
(* prints each code base (file kinds: regular, symlink to another file,    *)
(* hard link to another file, excluded by pattern, non-source extension)   *)
(* with the groups the reference demands.                                  *)
(***************************************************************************)
EXTENDS Naturals, Sequences, FiniteSets, TLC, Json, SequencesExt

CONSTANTS N,          \* number of files
          Pool,       \* set of contents (strings)
          Kinds,      \* subset of {"reg", "sym", "hard", "excl", "nosrc"}
          Hashes,     \* set of digest values available to the model (>= 1)
          Shard, NShards

Files == 1..N

VARIABLES stage,      \* "build" | "hash" | "loop" | "done"
          content,    \* [Files -> Pool]   (a link's content is its target's)
          kind,       \* [Files -> Kinds]
          target,     \* [Files -> Files \cup {0}]  for sym / hard
          digest,     \* [Pool -> Hashes]  chosen arbitrarily
          todo,       \* buckets (sets of files) still to process
          remaining,  \* current bucket's remaining set
          confirmed   \* set of sets found so far
vars == <<stage, content, kind, target, digest, todo, remaining, confirmed>>

Init == /\ stage = "build" /\ content = <<>> /\ kind = <<>> /\ target = <<>>
        /\ digest = [c \in Pool |-> CHOOSE h \in Hashes : TRUE] /\ todo = {} /\ remaining = {} /\ confirmed = {}

\* files are added one at a time; a link may only point to an earlier regular file
AddFile ==
  /\ stage = "build" /\ Len(content) < N
  /\ \E k \in Kinds :
       IF k \in {"sym", "hard"}
       THEN /\ \E t \in 1..Len(content) : kind[t] = "reg" /\
                 /\ content' = Append(content, content[t]) /\ target' = Append(target, t)
            /\ kind' = Append(kind, k)
       ELSE /\ \E c \in Pool : content' = Append(content, c)
            /\ target' = Append(target, 0) /\ kind' = Append(kind, k)
  /\ UNCHANGED <<stage, digest, todo, remaining, confirmed>>

\* members of the code base that the report considers: regular files and hard links (both are
\* ordinary directory entries); symlinks are excepted, excluded / non-source files are not members
Considered == {f \in 1..Len(content) : kind[f] \in {"reg", "hard"}}

Reference == LET classes == {{g \in Considered : content[g] = content[f]} : f \in Considered}
             IN {c \in classes : Cardinality(c) >= 2}

ChooseDigest ==
  /\ stage = "build" /\ Len(content) = N
  /\ \E d \in [Pool -> Hashes] :
       /\ digest' = d
       /\ todo' = {b \in {{g \in Considered : d[content[g]] = d[content[f]]} : f \in Considered} : Cardinality(b) > 1}
  /\ stage' = "loop" /\ remaining' = {} /\ UNCHANGED <<content, kind, target, confirmed>>

NextBucket ==
  /\ stage = "loop" /\ Cardinality(remaining) <= 1 /\ todo # {}
  /\ \E b \in todo : remaining' = b /\ todo' = todo \ {b}
  /\ UNCHANGED <<stage, content, kind, target, digest, confirmed>>

\* one iteration of `while len(remaining) > 1`
Pop ==
  /\ stage = "loop" /\ Cardinality(remaining) > 1
  /\ \E first \in remaining :
       LET matches == {first} \cup {p \in remaining \ {first} : content[p] = content[first]} IN
       /\ remaining' = remaining \ matches
       /\ confirmed' = IF Cardinality(matches) > 1 THEN confirmed \cup {matches} ELSE confirmed
  /\ UNCHANGED <<stage, content, kind, target, digest, todo>>

Finish ==
  /\ stage = "loop" /\ Cardinality(remaining) <= 1 /\ todo = {}
  /\ stage' = "done" /\ UNCHANGED <<content, kind, target, digest, todo, remaining, confirmed>>

Next == AddFile \/ ChooseDigest \/ NextBucket \/ Pop \/ Finish
Spec == Init /\ [][Next]_vars

\* M: whatever the digest and the pop order, the loop returns exactly the reference partition
LoopCorrect == stage = "done" => confirmed = Reference
\* groups found so far are always genuine (safety along the way)
GroupsGenuine == \A g \in confirmed : \A a, b \in g : content[a] = content[b]
GroupsDisjoint == \A g, h \in confirmed : g # h => g \cap h = {}

------------------------------------------------------------------------------
\* generator view: print each built code base once (ChooseDigest not taken)
Hash == (Cardinality({f \in 1..Len(content) : kind[f] = "reg"}) * 3 + Cardinality(Reference) * 5
         + Cardinality({f \in 1..Len(content) : content[f] = ""})) % NShards
EmitSpecNext ==
  \/ AddFile
  \/ /\ stage = "build" /\ Len(content) = N /\ stage' = "done"
     /\ UNCHANGED <<content, kind, target, digest, todo, remaining, confirmed>>
     /\ (Hash = Shard) =>
          PrintT(ToJson([files |-> [f \in 1..N |-> [content |-> content[f], kind |-> kind[f], target |-> target[f]]],
                         groups |-> SetToSeq({SetToSeq(g) : g \in Reference})]))
GenSpec == Init /\ [][EmitSpecNext]_vars

\* one large code base: BigK distinct contents, each present twice - so that ANY weakening of the
\* pre-filter (a truncated or size-based digest) puts several classes into one bucket
BigK == 24
BigN == 2 * BigK
BigInit == /\ stage = "build" /\ content = [i \in 1..BigN |-> "k" \o ToString((i - 1) % BigK)]
           /\ kind = [i \in 1..BigN |-> "reg"] /\ target = [i \in 1..BigN |-> 0]
           /\ digest = [c \in Pool |-> CHOOSE h \in Hashes : TRUE] /\ todo = {} /\ remaining = {} /\ confirmed = {}
BigNext == /\ stage = "build" /\ stage' = "done"
           /\ UNCHANGED <<content, kind, target, digest, todo, remaining, confirmed>>
           /\ PrintT(ToJson([files |-> [f \in 1..BigN |-> [content |-> content[f], kind |-> kind[f], target |-> target[f]]],
                             groups |-> SetToSeq({SetToSeq(g) : g \in Reference})]))
BigSpec == BigInit /\ [][BigNext]_vars
==============================================================================
