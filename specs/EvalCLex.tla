------------------------------ MODULE EvalCLex ------------------------------
(***************************************************************************)
(* Oracle service: evaluates the reference scanner CScan on texts supplied *)
(* by the harness (JSON array of strings in the file named by the          *)
(* environment variable TEXTS_FILE) - used for texts derived from the      *)
(* transitions of the MC_CLex product graph and for repository fixtures.   *)
(* One behaviour, one step per text; every verdict comes from CScan.Scan.  *)
(***************************************************************************)
EXTENDS Naturals, Sequences, FiniteSets, TLC, Json, IOUtils, CScan
CONSTANTS Shard, NShards
Texts == JsonDeserialize(IOEnv.TEXTS_FILE)
S(str) == [i \in 1..Len(str) |-> SubSeq(str, i, i)]
VARIABLE i
Init == i = 1
Next == /\ i <= Len(Texts)
        /\ i' = i + 1
        /\ (i % NShards = Shard) =>
             LET r == Scan(S(Texts[i])) IN
             PrintT(ToJson([idx |-> i, ok |-> r.ok, counted |-> r.counted,
                            logical |-> [j \in 1..Len(r.logical) |-> [cat |-> r.logical[j].cat, lines |-> r.logical[j].lines]]]))
Spec == Init /\ [][Next]_i
=============================================================================
