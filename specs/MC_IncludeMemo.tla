-------------------------- MODULE MC_IncludeMemo --------------------------
(***************************************************************************)
(* Implementation model of Platform.find_include_file: a per-TU memo       *)
(* (found_incl) in front of the directory search.  The design question is *)
(* the memo KEY: a look-up may be answered from memory only if the answer  *)
(* is the one the memory-less search would give NOW.                       *)
(*                                                                         *)
(* TLC explores every existence map of a header name over Dirs, every      *)
(* include-path list from IdirLists, and every sequence of look-ups        *)
(* (name, form, directory of the includer); invariant: the model's answer  *)
(* equals the reference's in every reachable state - i.e. "the resolution  *)
(* of one directive never depends on earlier includes of the same spelling *)
(* from another directory or in the other form".                           *)
(*                                                                         *)
(* KeyKind = "spelling" is the code before the fix (violated);             *)
(* KeyKind = "full" keys on (name, form, includer dir-if-quote).           *)
(***************************************************************************)
EXTENDS Naturals, Sequences, FiniteSets, TLC

CONSTANTS KeyKind, MaxLookups

Dirs == {"src", "lib", "inc", "sys"}
Names == {"h.h", "g.h"}
IdirLists == {<<"inc", "sys">>, <<"sys", "inc">>, <<"inc">>, <<>>, <<"lib", "inc">>}
None == <<>>

VARIABLES exists,  \* SUBSET (Dirs \X Names)
          idirs,   \* Seq(Dirs)
          memo,    \* function key -> result
          n,       \* look-ups so far
          last     \* [impl, ref] of the last look-up
vars == <<exists, idirs, memo, n, last>>

RECURSIVE First(_, _, _)
First(ds, nm, i) == IF i > Len(ds) THEN None
                    ELSE IF <<ds[i], nm>> \in exists THEN <<ds[i], nm>> ELSE First(ds, nm, i + 1)

Ref(nm, form, from) == First((IF form = "q" THEN <<from>> ELSE <<>>) \o idirs, nm, 1)

Key(nm, form, from) == IF KeyKind = "spelling" THEN <<nm>>
                       ELSE IF form = "q" THEN <<nm, form, from>> ELSE <<nm, form>>

Init == /\ exists \in SUBSET (Dirs \X Names)
        /\ idirs \in IdirLists
        /\ memo = [k \in {} |-> None] /\ n = 0 /\ last = [impl |-> None, ref |-> None]

Lookup(nm, form, from) ==
  LET k == Key(nm, form, from)
      r == IF k \in DOMAIN memo THEN memo[k] ELSE Ref(nm, form, from)
  IN /\ n < MaxLookups
     /\ memo' = IF k \in DOMAIN memo THEN memo ELSE memo @@ (k :> r)
     /\ last' = [impl |-> r, ref |-> Ref(nm, form, from)]
     /\ n' = n + 1 /\ UNCHANGED <<exists, idirs>>

\* includers live in src or lib (beside some of the headers) or in inc (a header including another)
Next == \E nm \in Names, form \in {"q", "a"}, from \in {"src", "lib", "inc"} : Lookup(nm, form, from)
Spec == Init /\ [][Next]_vars

ImplEqualsRef == last.impl = last.ref
===========================================================================
