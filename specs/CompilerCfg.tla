---------------------------- MODULE CompilerCfg ----------------------------
(***************************************************************************)
(* C12: the compiler-emulation layer as an interpreter of the              *)
(* configuration language (.cbi/config and the built-in definition files). *)
(*                                                                         *)
(* A compiler table maps a name to                                         *)
(*   [alias |-> name or "", options |-> Seq(Tok), rules |-> Seq(Rule),     *)
(*    modes |-> [name -> Mode], passes |-> [name -> Pass]]                 *)
(*   Rule = [flags, action in {"append_const","store_split","extend_match"}*)
(*           dest in {"defines","include_paths","include_files","modes",   *)
(*           "passes"}, const, prefix (format = prefix ++ "$value"),       *)
(*           hasdef, default (Seq), override]                              *)
(*   Mode = [defines, ipaths, ifiles]   Pass = Mode ++ [modes]             *)
(* A command-line token is [flag, val, parts, matches]: the option as      *)
(* written, its value, the value split at the rule's separator and the     *)
(* regular-expression matches of the rule's pattern in the value (the      *)
(* harness checks parts/matches against Python's str.split / re.findall).  *)
(*                                                                         *)
(* ResolveAlias: aliases resolve transitively; a loop or an unknown target *)
(* is an error outcome, never a hang.  Parse: implicit options behave as   *)
(* if appended to the command line; the result is one configuration for    *)
(* the default pass plus one per selected pass; it is a FUNCTION of        *)
(* (table, compiler, argv) - no history.                                   *)
(***************************************************************************)
EXTENDS Naturals, Sequences, FiniteSets, TLC

Tok(f, v, parts, ms) == [flag |-> f, val |-> v, parts |-> parts, matches |-> ms]
EmptyCompiler == [alias |-> "", options |-> <<>>, rules |-> <<>>, modes |-> [x \in {} |-> 0], passes |-> [x \in {} |-> 0]]

\* ---- aliases -------------------------------------------------------------------------------
RECURSIVE Walk(_, _, _)
Walk(table, chain, fuel) ==
  LET cur == chain[Len(chain)] IN
  IF table[cur].alias = "" THEN [outcome |-> "ok", target |-> cur]
  ELSE LET a == table[cur].alias IN
       IF \E i \in 1..Len(chain) : chain[i] = a THEN [outcome |-> "loop", target |-> ""]
       ELSE IF a \notin DOMAIN table THEN [outcome |-> "unknown-target", target |-> ""]
       ELSE IF fuel = 0 THEN [outcome |-> "fuel", target |-> ""]
       ELSE Walk(table, Append(chain, a), fuel - 1)

ResolveAlias(table, name) ==
  IF name \notin DOMAIN table THEN [outcome |-> "unknown", target |-> ""]
  ELSE Walk(table, <<name>>, Cardinality(DOMAIN table) + 1)

CompilerFor(table, name) ==
  LET r == ResolveAlias(table, name) IN IF r.outcome = "ok" THEN table[r.target] ELSE EmptyCompiler

\* ---- a user configuration EXTENDS the built-in one --------------------------------------------
\* a name defined in both: the user's options, rules, modes and passes are appended to / laid over the
\* built-in ones (an alias in the user file replaces the definition; a definition replaces an alias)
MergeF(f, g) == [k \in DOMAIN f \cup DOMAIN g |-> IF k \in DOMAIN g THEN g[k] ELSE f[k]]
Extend(base, user) ==
  [n \in DOMAIN base \cup DOMAIN user |->
     IF n \notin DOMAIN user THEN base[n]
     ELSE IF n \notin DOMAIN base THEN user[n]
     ELSE IF user[n].alias # "" THEN user[n]
     ELSE [alias |-> "", options |-> base[n].options \o user[n].options, rules |-> base[n].rules \o user[n].rules,
           modes |-> MergeF(base[n].modes, user[n].modes), passes |-> MergeF(base[n].passes, user[n].passes)]]

\* ---- parsing one command line --------------------------------------------------------------
RuleIdx(c, flag) == LET S == {i \in 1..Len(c.rules) : \E j \in 1..Len(c.rules[i].flags) : c.rules[i].flags[j] = flag}
                    IN IF S = {} THEN 0 ELSE CHOOSE i \in S : TRUE

Fmt(r, vs) == [i \in 1..Len(vs) |-> r.prefix \o vs[i]]

\* namespace: defines ipaths ifiles modes passes (Seq) ; pp : [key -> Seq] flag-specific passes ;
\* ovr : set of rule indices whose `override` is still armed ; unk : unrecognised tokens
InitNS(c) ==
  [defines |-> <<>>, ipaths |-> <<>>, sysdirs |-> <<>>, ifiles |-> <<>>, modes |-> <<>>, passes |-> <<>>,
   pp |-> [k \in {c.rules[i].flags[1] : i \in {j \in 1..Len(c.rules) :
                     c.rules[j].action # "append_const" /\ c.rules[j].dest = "passes" /\ c.rules[j].hasdef}} |->
             LET i == CHOOSE j \in 1..Len(c.rules) : c.rules[j].flags[1] = k IN c.rules[i].default],
   ovr |-> {i \in 1..Len(c.rules) : c.rules[i].action = "extend_match" /\ c.rules[i].override},
   unk |-> <<>>]

Put(ns, dest, vals, replace) ==
  CASE dest = "defines" -> [ns EXCEPT !.defines = IF replace THEN vals ELSE @ \o vals]
    [] dest = "include_paths" -> [ns EXCEPT !.ipaths = IF replace THEN vals ELSE @ \o vals]
    [] dest = "include_files" -> [ns EXCEPT !.ifiles = IF replace THEN vals ELSE @ \o vals]
    [] dest = "modes" -> [ns EXCEPT !.modes = IF replace THEN vals ELSE @ \o vals]
    [] dest = "passes" -> [ns EXCEPT !.passes = IF replace THEN vals ELSE @ \o vals]

SetPP(ns, k, v) == [ns EXCEPT !.pp = [x \in DOMAIN ns.pp \cup {k} |-> IF x = k THEN v ELSE ns.pp[x]]]

One(c, ns, t) ==
  IF t.flag = "-D" THEN [ns EXCEPT !.defines = Append(@, t.val)]
  ELSE IF t.flag = "-I" THEN [ns EXCEPT !.ipaths = Append(@, t.val)]
  ELSE IF t.flag = "-isystem" THEN [ns EXCEPT !.sysdirs = Append(@, t.val)]     \* searched after every -I directory
  ELSE IF t.flag = "-include" THEN [ns EXCEPT !.ifiles = Append(@, t.val)]
  ELSE
  LET i == RuleIdx(c, t.flag) IN
  IF i = 0 THEN [ns EXCEPT !.unk = Append(@, t.flag)]
  ELSE LET r == c.rules[i] IN
  CASE r.action = "append_const" -> Put(ns, r.dest, <<r.const>>, FALSE)
    [] r.action = "store_split" ->
         IF r.dest = "passes" THEN SetPP(ns, t.flag, Fmt(r, t.parts))       \* keyed by the option as written
         ELSE Put(ns, r.dest, Fmt(r, t.parts), TRUE)
    [] r.action = "extend_match" ->
         IF r.dest = "passes"
         THEN LET k == r.flags[1]
                  cur == IF k \in DOMAIN ns.pp THEN ns.pp[k] ELSE <<>>
              IN IF i \in ns.ovr THEN [SetPP(ns, k, Fmt(r, t.matches)) EXCEPT !.ovr = ns.ovr \ {i}]
                 ELSE SetPP(ns, k, cur \o Fmt(r, t.matches))
         ELSE IF i \in ns.ovr THEN Put(ns, r.dest, Fmt(r, t.matches), TRUE)   \* override stays armed for other dests
              ELSE Put(ns, r.dest, Fmt(r, t.matches), FALSE)

RECURSIVE Fold(_, _, _, _)
Fold(c, ns, toks, i) == IF i > Len(toks) THEN ns ELSE Fold(c, One(c, ns, toks[i]), toks, i + 1)

SeqToSet(s) == {s[i] : i \in 1..Len(s)}
RECURSIVE Flatten(_)
Flatten(ss) == IF ss = <<>> THEN <<>> ELSE Head(ss) \o Flatten(Tail(ss))

\* one configuration: [pass, defines, ipaths, ifiles]; the contributions of several modes come in
\* no particular order, so they are reported separately as a SET of mode names for the harness
Config(c, ns, p) ==
  LET known == IF p = "default" THEN TRUE ELSE p \in DOMAIN c.passes
      base == IF p = "default" \/ ~known THEN [defines |-> <<>>, ipaths |-> <<>>, ifiles |-> <<>>] ELSE c.passes[p]
      modes == IF p = "default" THEN SeqToSet(ns.modes) ELSE IF known THEN SeqToSet(c.passes[p].modes) ELSE {}
  IN [pass |-> p, known |-> known,
      defines |-> ns.defines \o base.defines, ipaths |-> ns.ipaths \o ns.sysdirs \o base.ipaths,
      ifiles |-> ns.ifiles \o base.ifiles,
      modes |-> {m \in modes : m \in DOMAIN c.modes}, badmodes |-> {m \in modes : m \notin DOMAIN c.modes}]

Parse(table, name, argv) ==
  LET c == CompilerFor(table, name)
      ns == Fold(c, InitNS(c), argv \o c.options, 1)
      selected == SeqToSet(ns.passes) \cup UNION {SeqToSet(ns.pp[k]) : k \in DOMAIN ns.pp} \cup {"default"}
  IN [outcome |-> ResolveAlias(table, name).outcome,
      configs |-> {Config(c, ns, p) : p \in {q \in selected : q = "default" \/ q \in DOMAIN c.passes}},
      unknown_passes |-> {q \in selected : q # "default" /\ q \notin DOMAIN c.passes},
      unrecognised |-> ns.unk]
============================================================================
