----------------------------- MODULE GenCompDb -----------------------------
(***************************************************************************)
(* C13: how a compilation-database entry names its file and directories.   *)
(* Reference (what a compiler started in `directory` would open):           *)
(*   Dir(e)  = root                       if the entry has no directory     *)
(*           = directory                  if it is absolute                 *)
(*           = root / directory           otherwise                         *)
(*   File(e) = file if absolute, else Dir(e) / file                         *)
(*   Inc(e,d)= d if absolute, else Dir(e) / d          (for every -I d)     *)
(* all resolved physically (FileSys.Resolve).  An entry is SKIPPED, with a  *)
(* warning, iff its file does not exist, is not a source file, or its       *)
(* command is empty; skipping never changes what the other entries yield.   *)
(* Behaviours choose up to NE entries from catalogues of spellings; Emit    *)
(* prints the database and the expected resolution of every entry.          *)
(***************************************************************************)
EXTENDS Naturals, Sequences, FiniteSets, TLC, Json, FileSys

CONSTANTS NE, Shard, NShards

Root == <<"B", "root">>
Out == <<"B", "outside", "bld">>
\* the tree (files that exist)
Existing == {Root \o <<"src", "a.c">>, Root \o <<"src", "b.c">>, Root \o <<"build", "gen.c">>, Out \o <<"o.c">>,
             Root \o <<"src", "a.o">>, Root \o <<"inc", "h.h">>, Root \o <<"build", "gen", "h.h">>,
             Out \o <<"gen", "h.h">>}
IsSource(p) == p[Len(p)] \in {"a.c", "b.c", "gen.c", "o.c", "h.h"}

\* spellings: [abs |-> BOOLEAN, p |-> Seq]
A(p) == [abs |-> TRUE, p |-> p]
R(p) == [abs |-> FALSE, p |-> p]
DirChoices == {[none |-> TRUE, abs |-> FALSE, p |-> <<>>], [none |-> FALSE, abs |-> TRUE, p |-> Root],
               [none |-> FALSE, abs |-> TRUE, p |-> Append(Root, "build")], [none |-> FALSE, abs |-> TRUE, p |-> Out],
               [none |-> FALSE, abs |-> FALSE, p |-> <<"build">>], [none |-> FALSE, abs |-> FALSE, p |-> <<".">>],
               [none |-> FALSE, abs |-> FALSE, p |-> <<"src", "..", "build">>]}
FileChoices == {A(Root \o <<"src", "a.c">>), R(<<"src", "a.c">>), R(<<"..", "src", "b.c">>), R(<<"gen.c">>), R(<<"o.c">>),
                R(<<".", "src", "..", "src", "a.c">>), A(Root \o <<"src", "missing.c">>), R(<<"src", "a.o">>), R(<<"a.c">>)}
IncChoices == {<<>>, <<A(Append(Root, "inc"))>>, <<R(<<"gen">>)>>, <<R(<<"..", "inc">>)>>, <<R(<<"inc">>), R(<<"gen">>)>>,
               <<R(<<".">>)>>, <<R(<<".", "..", "inc">>)>>, <<R(<<".", "inc">>)>>}     \* ./../inc and ./inc
CmdChoices == {"ok", "empty", "blank"}   \* blank: a command string of white space only

VARIABLES ents, done
vars == <<ents, done>>
Init == ents = <<>> /\ done = FALSE
Add == /\ ~done /\ Len(ents) < NE
       /\ \E d \in DirChoices, f \in FileChoices, i \in IncChoices, c \in CmdChoices :
            ents' = Append(ents, [dir |-> d, file |-> f, incs |-> i, cmd |-> c])
       /\ UNCHANGED done

NoLinks == [x \in {} |-> <<>>]
DirOf(e) == IF e.dir.none THEN Root ELSE IF e.dir.abs THEN e.dir.p ELSE Root \o e.dir.p
FileOf(e) == Resolve(NoLinks, IF e.file.abs THEN e.file.p ELSE DirOf(e) \o e.file.p)
IncOf(e, d) == Resolve(NoLinks, IF d.abs THEN d.p ELSE DirOf(e) \o d.p)
Skipped(e) == e.cmd \in {"empty", "blank"} \/ FileOf(e) \notin Existing \/ ~IsSource(FileOf(e)) \/ FileOf(e)[Len(FileOf(e))] = "a.o"
Why(e) == IF e.cmd \in {"empty", "blank"} THEN "empty" ELSE IF FileOf(e) \notin Existing THEN "missing"
          ELSE IF Skipped(e) THEN "notsource" ELSE "kept"

Expect(e) == [file |-> FileOf(e), incs |-> [k \in 1..Len(e.incs) |-> IncOf(e, e.incs[k])], why |-> Why(e)]

Hash == (Len(ents) * 3 + Cardinality({k \in 1..Len(ents) : Skipped(ents[k])}) * 5
         + Cardinality({k \in 1..Len(ents) : ents[k].dir.abs})) % NShards
Emit == /\ ~done /\ ents # <<>> /\ done' = TRUE /\ UNCHANGED ents
        /\ (Hash = Shard) => PrintT(ToJson([ents |-> ents, exp |-> [k \in 1..Len(ents) |-> Expect(ents[k])]]))
Next == Add \/ Emit
Spec == Init /\ [][Next]_vars

\* M: resolution of an entry is a function of that entry alone (so skipping or reordering other
\* entries cannot alter it), resolved paths are canonical, and kept entries name existing sources
EntryLocal == \A k \in 1..Len(ents) :
   /\ Resolve(NoLinks, FileOf(ents[k])) = FileOf(ents[k])
   /\ (~Skipped(ents[k]) => FileOf(ents[k]) \in Existing /\ IsSource(FileOf(ents[k])))
   /\ \A j \in 1..Len(ents) : (ents[j] = ents[k]) => Expect(ents[j]) = Expect(ents[k])
============================================================================
