----------------------------- MODULE GenCMacro -----------------------------
(***************************************************************************)
(* Generator for C03: behaviours choose a macro table (one alternative per *)
(* slot F, G, O from catalogues of object-like and function-like           *)
(* definitions: parameters, variadics, #, ##, nested calls, direct, mutual *)
(* and argument-borne recursion, object-like macros naming function-like   *)
(* ones) and an invocation line (0..n arguments incl. empty, parenthesised *)
(* and macro-valued ones, with following source tokens).  Emit prints the  *)
(* table, the line and the expansion the reference algorithm (CMacro)      *)
(* produces.  Invariants: expansion terminates within the fuel and a       *)
(* second expansion of the result changes nothing (painted tokens stay).   *)
(***************************************************************************)
EXTENDS Naturals, Sequences, FiniteSets, TLC, Json, CMacro

CONSTANTS Profile, Shard, NShards

A == Id("a")  Bp == Id("b")  X == Id("x")  Y == Id("y")  VA == Id("__VA_ARGS__")
PLUS == Op("+")  STAR == Op("*")
Call1(f, t) == <<Id(f), LP>> \o t \o <<RP>>

FDefs == [
  F1  |-> Fn(<<"a">>, <<A>>),
  F2  |-> Fn(<<"a">>, <<A, PLUS, Num("1")>>),
  F3  |-> Fn(<<"a", "b">>, <<A, HH, Bp>>),
  F4  |-> Fn(<<"a">>, <<HASH, A>>),
  F5  |-> VFn(<<"a">>, <<VA>>),
  F6  |-> VFn(<<>>, Call1("G", <<VA>>)),
  F7  |-> Fn(<<"a">>, Call1("F", <<A>>)),
  F8  |-> Fn(<<"a">>, Call1("G", <<A>>)),
  F9  |-> Fn(<<>>, <<Num("7")>>),
  F10 |-> Fn(<<"a", "b">>, <<Bp, A>>),
  F11 |-> Fn(<<"a">>, <<A, HH, Num("1")>>),
  F12 |-> Fn(<<"a", "b">>, <<HASH, A, Bp>>),
  F13 |-> Fn(<<"a">>, <<LP, A, RP, STAR, Num("2")>>),
  F14 |-> VFn(<<"a">>, <<A, PLUS>> \o Call1("G", <<VA>>)),
  F15 |-> Fn(<<"a", "b">>, <<Num("1"), HH, A, HH, Bp, PLUS, A>>),
  F16 |-> VFn(<<>>, <<HASH, VA>>),
  F17 |-> Fn(<<"a">>, <<Id("O"), A>>),
  \* the macro's own name inside an ARGUMENT of another macro in its replacement list: the argument is
  \* pre-expanded while F is still being replaced, so the inner F must stay unexpanded (and painted)
  F18 |-> Fn(<<"a">>, <<A, PLUS>> \o Call1("G", Call1("F", <<A>>))) ]
GDefs == [
  G0 |-> Obj(<<>>),   \* placeholder: slot unused
  G1 |-> Fn(<<"x">>, <<X>>),
  G2 |-> Fn(<<"x">>, Call1("F", <<X>>)),
  G3 |-> Fn(<<"x">>, <<X, HH, X>>),
  G4 |-> Obj(<<Id("F")>>),
  G5 |-> Fn(<<"x", "y">>, <<Y>>),
  G6 |-> Fn(<<"x">>, <<HASH, X>>),
  G7 |-> Fn(<<"x">>, Call1("F", <<X>>) \o <<PLUS, Num("1")>>),
  G8 |-> VFn(<<"x">>, <<X>>) ]
ODefs == [
  O0 |-> Obj(<<>>),   \* placeholder: slot unused
  O1 |-> Obj(<<Num("1")>>),
  O2 |-> Obj(<<Id("O")>>),
  O3 |-> Obj(<<Id("P")>>),            \* with P -> O (mutual)
  O4 |-> Obj(<<Id("F")>>),
  O5 |-> Obj(<<Num("2"), PLUS, Id("O")>>),
  O6 |-> Obj(<<>>),                   \* defined empty
  O7 |-> Obj(<<Num("1"), CM, Num("2")>>),
  O8 |-> Obj(<<Id("G")>>),
  O9 |-> Obj(Call1("G", <<Id("O")>>) \o <<PLUS, Num("1")>>) ]   \* self-reference inside an argument

Invs == [
  I1  |-> Call1("F", <<Num("1")>>),
  I2  |-> Call1("F", <<Id("O")>>),
  I3  |-> Call1("F", Call1("F", <<Num("1")>>)),
  I4  |-> Call1("F", Call1("G", <<Num("1")>>)),
  I5  |-> Call1("F", <<Num("1"), CM, Num("2")>>),
  I6  |-> Call1("F", <<CM, Num("1")>>),
  I7  |-> Call1("F", <<Num("1"), CM>>),
  I8  |-> Call1("F", <<>>),
  I9  |-> Call1("F", <<LP, Num("1"), CM, Num("2"), RP>>),
  I10 |-> Call1("F", <<LP, Num("1"), CM, Num("2"), RP, CM, Num("3")>>),
  I11 |-> Call1("F", <<Num("1")>>) \o <<LP, Num("2"), RP>>,
  I12 |-> Call1("G", <<Num("1")>>),
  I13 |-> Call1("G", <<Id("F")>>) \o <<LP, Num("1"), RP>>,
  I14 |-> <<Id("O")>>,
  I15 |-> <<Id("O"), LP, Num("1"), RP>>,
  I16 |-> <<Id("G")>>,
  I17 |-> <<Id("G"), LP, Num("1"), CM, Num("2"), RP>>,
  I18 |-> Call1("F", <<Id("O"), Id("O")>>),
  I19 |-> Call1("F", <<Num("1"), Num("2")>>),
  I20 |-> <<Id("F")>>,
  I21 |-> <<Id("F"), PLUS, Num("1")>>,
  I22 |-> Call1("F", <<Id("F")>>) \o <<LP, Num("2"), RP>>,
  I23 |-> Call1("F", <<Id("O"), CM, Num("2")>>),
  I24 |-> Call1("F", <<Num("1"), CM, Id("O")>>),
  I25 |-> Call1("F", <<CM>>),
  I26 |-> Call1("F", <<Num("1"), CM, Num("2"), CM, Num("3")>>),
  I27 |-> Call1("F", <<Id("x"), PLUS, Id("y")>>),
  I28 |-> Call1("G", Call1("G", <<Num("1")>>)),
  I29 |-> Call1("F", <<Id("G")>>),
  I30 |-> <<Id("O"), PLUS, Id("O")>>,
  I31 |-> Call1("F", <<T("\"s t\"", "str")>>),
  I32 |-> Call1("F", <<Id("x"), CM, Id("y")>>),
  I33 |-> Call1("F", Call1("F", <<>>)),
  I34 |-> Call1("F", <<CM, CM>>),
  \* arguments spelled like parameters (of the macro itself, swapped, or of the macro it calls)
  I35 |-> Call1("F", <<Id("a")>>),
  I36 |-> Call1("F", <<Id("b"), CM, Id("a")>>),
  I37 |-> Call1("G", <<Id("x")>>),
  I38 |-> Call1("F", <<Id("x"), PLUS, Id("a")>>),
  \* a number next to a macro that may expand to nothing
  I39 |-> <<Num("1"), Id("O")>>,
  I40 |-> <<Id("O"), Num("1")>>,
  \* an object-like alias of a function-like macro as an argument; the "(" follows the OUTER invocation
  I41 |-> Call1("G", <<Id("O")>>) \o <<LP, Num("1"), RP>>,
  I42 |-> Call1("F", <<Id("O")>>) \o <<LP, Num("1"), RP>>,
  \* a function-like macro name passed as argument ends the replacement list; its "(" follows the invocation
  I43 |-> Call1("F", <<Id("G")>>) \o <<LP, Num("1"), RP>> ]

Sel == CASE Profile = "q" -> [f |-> DOMAIN FDefs, g |-> {"G0", "G1", "G2", "G4", "G6"}, o |-> {"O0", "O1", "O4", "O3", "O6", "O7", "O9"}, i |-> DOMAIN Invs]
         [] Profile = "t" -> [f |-> DOMAIN FDefs, g |-> DOMAIN GDefs, o |-> DOMAIN ODefs, i |-> DOMAIN Invs]

VARIABLES fsel, gsel, osel, isel, osel2, done
vars == <<fsel, gsel, osel, isel, osel2, done>>
Init == fsel = "" /\ gsel = "" /\ osel = "" /\ isel = "" /\ osel2 = "" /\ done = FALSE

PickF == fsel = "" /\ \E f \in Sel.f : fsel' = f /\ UNCHANGED <<gsel, osel, isel, osel2, done>>
PickG == fsel # "" /\ gsel = "" /\ \E g \in Sel.g : gsel' = g /\ UNCHANGED <<fsel, osel, isel, osel2, done>>
PickO == gsel # "" /\ osel = "" /\ \E o \in Sel.o : osel' = o /\ UNCHANGED <<fsel, gsel, isel, osel2, done>>
PickI == osel # "" /\ isel = "" /\ \E i \in Sel.i : isel' = i /\ UNCHANGED <<fsel, gsel, osel, osel2, done>>
\* history: after the line has been expanded once, O is #undef'ed and #define'd again (possibly
\* to the same body) and the SAME line is expanded again with the SAME macro objects for F and G
PickO2 == isel # "" /\ osel2 = "" /\ \E o \in {osel, "O1", "O7", "O4"} : osel2' = o /\ UNCHANGED <<fsel, gsel, osel, isel, done>>

Table == [n \in ({"F"} \cup (IF gsel # "G0" THEN {"G"} ELSE {}) \cup (IF osel # "O0" THEN {"O"} ELSE {})
                 \cup (IF osel = "O3" THEN {"P"} ELSE {})) |->
            CASE n = "F" -> FDefs[fsel] [] n = "G" -> GDefs[gsel] [] n = "O" -> ODefs[osel]
              [] n = "P" -> Obj(<<Id("O")>>)]

Fuel == 60
Result == Expand(Table, Invs[isel], Fuel)
Table2 == [n \in (DOMAIN Table \cup (IF osel2 # "O0" THEN {"O"} ELSE {})) \ (IF osel2 = "O0" THEN {"O"} ELSE {}) |->
             IF n = "O" THEN ODefs[osel2] ELSE Table[n]]
Result2 == Expand(Table2, Invs[isel], Fuel)
Names(ts) == {ts[i].s : i \in 1..Len(ts)}
Ill(ts) == "__ILL__" \in Names(ts) \/ "__FUEL__" \in Names(ts)

Sps(ts) == [i \in 1..Len(ts) |-> ts[i].s]
MacroOut(n) == LET m == Table[n] IN [name |-> n, fn |-> m.fn, params |-> m.params, va |-> m.va, body |-> Sps(m.body)]

Hash == (Len(Invs[isel]) * 3 + Len(FDefs[fsel].body) * 5 + Len(GDefs[gsel].body) + Len(ODefs[osel].body) * 7) % NShards

Emit == /\ osel2 # "" /\ ~done /\ done' = TRUE /\ UNCHANGED <<fsel, gsel, osel, isel, osel2>>
        /\ (Hash = Shard) =>
             LET r == Result IN
             PrintT(ToJson([ids |-> <<fsel, gsel, osel, isel, osel2>>,
                            macros |-> [n \in DOMAIN Table |-> MacroOut(n)],
                            inv |-> Sps(Invs[isel]), out |-> Sps(r), kinds |-> [i \in 1..Len(r) |-> r[i].k],
                            ill |-> Ill(r),
                            redef |-> IF osel2 = "O0" THEN [name |-> "O", fn |-> FALSE, params |-> <<>>, va |-> FALSE, body |-> <<"__UNDEF__">>]
                                      ELSE [name |-> "O", fn |-> FALSE, params |-> <<>>, va |-> FALSE, body |-> Sps(ODefs[osel2].body)],
                            out2 |-> Sps(Result2), ill2 |-> Ill(Result2)]))

Next == PickF \/ PickG \/ PickO \/ PickI \/ PickO2 \/ Emit
Spec == Init /\ [][Next]_vars

\* M: expansion terminates within the fuel for every table (no __FUEL__ marker) ...
Terminates == (osel2 # "" /\ ~done) => "__FUEL__" \notin Names(Result)
\* ... and is stable: expanding the result again (hide sets kept) changes nothing
Stable == (osel2 # "" /\ ~done) => (LET r == Result IN ~Ill(r) => Sps(Expand(Table, r, Fuel)) = Sps(r))
============================================================================
