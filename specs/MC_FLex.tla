---- MODULE MC_FLex ----
\* C17, design level, free-form Fortran texts of ANY length: product of
\*   - the implementation model of  c_file_source(directives_only=True) -> fortran_cleaner ->
\*     fortran_file_source  (state names as in codebasin/file_source.py), and
\*   - the reference scanner FScan, re-stated as a character-at-a-time machine,
\* over character classes.  VIEW hides the input history, so TLC's fixpoint covers every text.
\* Invariant NoMismatch: at every physical line end the two agree on whether the line is counted.
\*
\* character classes: "L" letter, "O" other non-blank character that is none of the following,
\*   "S" blank, "!" "&" "Q" (double quote) "q" (single quote) "$" "#"
\* events: Feed(c), NL (newline), DSplice (backslash-newline inside a preprocessor directive)
\* Outside the model (exploration stops, `illf`): texts FScan calls ill-formed (unterminated literal,
\*   literal continued without leading &, line that holds nothing but continuation markers); `#` anywhere but as the first non-blank character of a line; quotes
\*   inside directives that span several lines and backslashes outside directives (the C cleaner's business:
\*   MC_CLex); a quote on a one-line directive is ordinary.
EXTENDS Naturals, Sequences, TLC

Classes == {"L", "O", "S", "!", "&", "Q", "q", "$", "#"}

VARIABLES
  \* ---- implementation
  cdir,    \* c_cleaner (directives_only): state is CPP_DIRECTIVE (kept across spliced lines)
  cform,   \* C-level buffer of the current physical line: "E" empty | "S" blank | "N" non-blank
  ctrail,  \* C-level buffer ends in a blank (blanks are merged before the Fortran cleaner sees them)
  fst,     \* fortran_cleaner.state (stack)
  fform,   \* Fortran-level buffer of the current physical line: "E" | "S" (exactly one blank) | "N"
  ftrail,  \* its trailing_space flag
  fmode,   \* "run" | "bang" (inside dir_check, reading letters) | "skip" (rest of the line is dropped)
  \* ---- reference (FScan, incremental)
  rq,      \* literal open across lines: "" | "Q" | "q"
  rcont,   \* the statement is continued onto this line
  rdcont,  \* the directive is continued onto this line
  rph,     \* phase of the current line: "sol" | "dir" | "bang" | "cmt" | "sent" | "body" | "bcmt"
  rtext, ramp, rlq, rpend, rbad, rdany,
  \* ---- bookkeeping
  mism, illf, hist
vars == <<cdir, cform, ctrail, fst, fform, ftrail, fmode, rq, rcont, rdcont, rph, rtext, ramp, rlq, rpend, rbad, rdany,
          mism, illf, hist>>

Top(s) == s[Len(s)]
Pop(s) == SubSeq(s, 1, Len(s) - 1)
Push(s, x) == Append(s, x)

\* ---- one_space_line, abstracted to blankness --------------------------------------------------
Buf(f, t) == [f |-> f, t |-> t]
AppNonspace(b, c) == Buf(IF c = "S" THEN (IF b.f = "E" THEN "S" ELSE "N") ELSE "N", FALSE)
AppSpace(b) == IF b.t THEN b ELSE Buf(IF b.f = "E" THEN "S" ELSE "N", TRUE)
AppChar(b, c) == IF c = "S" THEN AppSpace(b) ELSE Buf("N", FALSE)
Blank(f) == f \in {"E", "S"}

\* ---- fortran_cleaner.process for one character (putback = recursion) ---------------------------
\* returns [st, b (buffer), mode]
RECURSIVE FProc(_, _, _)
FProc(st, b, c) ==
  LET top == Top(st) IN
  CASE top = "TOPLEVEL" ->
         (CASE c = "!" -> [st |-> <<"TOPLEVEL">>, b |-> b, mode |-> "bang"]
            [] c = "&" -> [st |-> Push(st, "VERIFY_CONTINUE"), b |-> b, mode |-> "run"]
            [] c = "Q" -> [st |-> Push(st, "DOUBLE_QUOTATION"), b |-> AppNonspace(b, c), mode |-> "run"]
            [] c = "q" -> [st |-> Push(st, "SINGLE_QUOTATION"), b |-> AppNonspace(b, c), mode |-> "run"]
            [] OTHER -> [st |-> st, b |-> AppChar(b, c), mode |-> "run"])
    [] top = "CONTINUING_FROM_SOL" ->
         (CASE c = "S" -> [st |-> st, b |-> AppSpace(b), mode |-> "run"]
            [] c = "&" -> [st |-> Pop(st), b |-> b, mode |-> "run"]
            [] c = "!" -> [st |-> st, b |-> b, mode |-> "bang"]
            [] OTHER -> FProc(Pop(st), b, c))
    [] top = "DOUBLE_QUOTATION" ->
         (CASE c = "Q" -> [st |-> Pop(st), b |-> AppNonspace(b, c), mode |-> "run"]
            [] c = "&" -> [st |-> Push(st, "VERIFY_CONTINUE"), b |-> b, mode |-> "run"]
            [] OTHER -> [st |-> st, b |-> AppNonspace(b, c), mode |-> "run"])
    [] top = "SINGLE_QUOTATION" ->
         (CASE c = "q" -> [st |-> Pop(st), b |-> AppNonspace(b, c), mode |-> "run"]
            [] c = "&" -> [st |-> Push(st, "VERIFY_CONTINUE"), b |-> b, mode |-> "run"]
            [] OTHER -> [st |-> st, b |-> AppNonspace(b, c), mode |-> "run"])
    [] top = "VERIFY_CONTINUE" ->
         IF c = "!" /\ st[Len(st) - 1] = "TOPLEVEL" THEN [st |-> st, b |-> b, mode |-> "bang"]
         ELSE IF c # "S" THEN FProc(Pop(st), Buf("N", FALSE), c)      \* the held-back "&  " is flushed: non-blank
         ELSE [st |-> st, b |-> b, mode |-> "run"]

\* end of fortran_cleaner.process
FEol(st) == IF Top(st) = "VERIFY_CONTINUE" THEN Push(Pop(st), "CONTINUING_FROM_SOL") ELSE st

Init == /\ cdir = FALSE /\ cform = "E" /\ ctrail = FALSE
        /\ fst = <<"TOPLEVEL">> /\ fform = "E" /\ ftrail = FALSE /\ fmode = "run"
        /\ rq = "" /\ rcont = FALSE /\ rdcont = FALSE /\ rph = "sol"
        /\ rtext = FALSE /\ ramp = FALSE /\ rlq = "" /\ rpend = FALSE /\ rbad = FALSE /\ rdany = FALSE
        /\ mism = "ok" /\ illf = FALSE /\ hist = <<>>

Live == mism = "ok" /\ ~illf /\ Len(hist) < 60

\* ---- reference: one character in the statement part of a line (FScan.LineR) ----------------------
\* s = [text, amp, lq, pend, ph]
RECURSIVE RBody(_, _)
RBody(s, c) ==
  IF s.pend THEN (IF c = "S" THEN s ELSE RBody([s EXCEPT !.pend = FALSE, !.text = TRUE, !.amp = FALSE], c))
  ELSE IF s.lq # "" THEN
       (IF c = s.lq THEN [s EXCEPT !.lq = "", !.text = TRUE, !.amp = FALSE]
        ELSE IF c = "&" THEN [s EXCEPT !.pend = TRUE]
        ELSE [s EXCEPT !.text = (s.text \/ c # "S"), !.amp = FALSE])
  ELSE IF c = "!" THEN [s EXCEPT !.ph = "bcmt"]
  ELSE IF c \in {"Q", "q"} THEN [s EXCEPT !.lq = c, !.text = TRUE, !.amp = FALSE]
  ELSE IF c = "&" THEN [s EXCEPT !.amp = TRUE]
  ELSE IF c = "S" THEN s
  ELSE [s EXCEPT !.text = TRUE, !.amp = FALSE]

RState == [text |-> rtext, amp |-> ramp, lq |-> rlq, pend |-> rpend, ph |-> rph]

\* the whole reference step for character c; returns [ph, text, amp, lq, pend, bad, dany, ill]
RFeed(c) ==
  LET keep == [ph |-> rph, text |-> rtext, amp |-> ramp, lq |-> rlq, pend |-> rpend, bad |-> rbad, dany |-> rdany, ill |-> FALSE] IN
  CASE rph = "sol" ->
         (IF c = "S" THEN keep
          ELSE IF rdcont THEN [keep EXCEPT !.ph = "dir", !.dany = TRUE, !.ill = c \in {"Q", "q", "#"}]
          ELSE IF c = "#" THEN [keep EXCEPT !.ph = "dir", !.dany = TRUE]
          ELSE IF c = "!" /\ (rq = "" \/ rcont) THEN [keep EXCEPT !.ph = "bang"]
          ELSE IF c = "&" /\ rcont THEN [keep EXCEPT !.ph = "body", !.lq = rq]          \* optional leading &
          ELSE LET b == RBody([text |-> FALSE, amp |-> FALSE, lq |-> rq, pend |-> FALSE, ph |-> "body"], c) IN
               [keep EXCEPT !.ph = b.ph, !.text = b.text, !.amp = b.amp, !.lq = b.lq, !.pend = b.pend,
                            !.bad = (rq # "")])                                          \* continued literal needs the &
    [] rph = "dir" -> [keep EXCEPT !.dany = (rdany \/ c # "S"), !.ill = (c = "#" \/ (rdcont /\ c \in {"Q", "q"})),
                                   !.pend = (rpend \/ c \in {"Q", "q"})]        \* pend: a quote was seen on this directive line
    [] rph = "bang" -> (IF c = "$" THEN [keep EXCEPT !.ph = "sent"] ELSE IF c = "L" THEN keep ELSE [keep EXCEPT !.ph = "cmt"])
    [] rph \in {"cmt", "sent", "bcmt"} -> keep
    [] rph = "body" -> (IF c = "#" THEN [keep EXCEPT !.ill = TRUE]
                        ELSE LET b == RBody(RState, c) IN
                             [keep EXCEPT !.ph = b.ph, !.text = b.text, !.amp = b.amp, !.lq = b.lq, !.pend = b.pend])

Feed(c) ==
  /\ Live
  /\ LET r == RFeed(c)
         \* implementation: C level first
         startdir == ~cdir /\ c = "#" /\ Blank(cform)
         indir == cdir \/ startdir
         \* blanks are merged by the C-level buffer before the Fortran cleaner sees the line
         visible == ~(c = "S" /\ ctrail)
     IN
     /\ rph' = r.ph /\ rtext' = r.text /\ ramp' = r.amp /\ rlq' = r.lq /\ rpend' = r.pend /\ rbad' = r.bad /\ rdany' = r.dany
     /\ illf' = (r.ill \/ (c = "#" /\ ~startdir))
     /\ cdir' = indir
     /\ cform' = IF c = "S" THEN (IF cform = "E" THEN "S" ELSE cform) ELSE "N"
     /\ ctrail' = (c = "S")
     /\ IF indir \/ ~visible
          THEN UNCHANGED <<fst, fform, ftrail, fmode>>
          ELSE CASE fmode = "skip" -> UNCHANGED <<fst, fform, ftrail, fmode>>
                 [] fmode = "bang" ->
                      (IF c = "$" THEN fform' = "N" /\ ftrail' = FALSE /\ fmode' = "skip" /\ UNCHANGED fst
                       ELSE IF c = "L" THEN UNCHANGED <<fst, fform, ftrail, fmode>>
                       ELSE fmode' = "skip" /\ UNCHANGED <<fst, fform, ftrail>>)
                 [] OTHER ->
                      LET p == FProc(fst, Buf(fform, ftrail), c) IN
                      fst' = p.st /\ fform' = p.b.f /\ ftrail' = p.b.t /\ fmode' = p.mode
     /\ hist' = Append(hist, c)
     /\ UNCHANGED <<rq, rcont, rdcont, mism>>

\* end of a physical line.  spliced: backslash-newline inside a directive
EndLine(spliced) ==
  LET indirRef == rph = "dir" \/ (rph = "sol" /\ rdcont)
      \* ---- reference verdict
      refCount == CASE rph = "dir" -> rdany
                    [] rph = "sent" -> TRUE
                    [] rph \in {"body", "bcmt"} -> rtext
                    [] OTHER -> FALSE
      amp2 == ramp \/ rpend
      refIll == CASE rph \in {"body", "bcmt"} -> rbad \/ ~(rlq = "" \/ amp2) \/ ~rtext
                  [] OTHER -> FALSE
      \* ---- implementation verdict
      fst2 == FEol(fst)
      cbiCount == IF cdir THEN ~Blank(cform) ELSE fform = "N"
  IN
  /\ Live
  /\ spliced => (cdir /\ indirRef /\ ~(rph = "dir" /\ rpend))
  /\ illf' = refIll
  /\ mism' = IF refIll THEN "ok"
             ELSE IF cdir # indirRef THEN "directive-extent"
             ELSE IF cbiCount # refCount THEN "line-count"
             ELSE "ok"
  /\ rq' = (IF rph \in {"body", "bcmt"} THEN rlq ELSE rq)
  /\ rcont' = (IF rph \in {"body", "bcmt"} THEN amp2 ELSE rcont)
  /\ rdcont' = spliced
  /\ rph' = "sol" /\ rtext' = FALSE /\ ramp' = FALSE /\ rlq' = "" /\ rpend' = FALSE /\ rbad' = FALSE /\ rdany' = FALSE
  /\ cdir' = (cdir /\ spliced) /\ cform' = "E" /\ ctrail' = FALSE
  /\ fst' = (IF cdir THEN fst ELSE fst2) /\ fform' = "E" /\ ftrail' = FALSE /\ fmode' = "run"
  /\ hist' = Append(hist, IF spliced THEN "\\n" ELSE "\n")

NL == EndLine(FALSE)
DSplice == EndLine(TRUE)

Next == (\E c \in Classes : Feed(c)) \/ NL \/ DSplice
Spec == Init /\ [][Next]_vars
NoMismatch == mism = "ok"
\* the reference never meets an open literal that is not continued (FScan flags the line before)
RefConsistent == (~illf /\ rq # "") => rcont
View == <<cdir, cform, ctrail, fst, fform, ftrail, fmode, rq, rcont, rdcont, rph, rtext, ramp, rlq, rpend, rbad, rdany, mism, illf>>
====
