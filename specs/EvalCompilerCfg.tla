--------------------------- MODULE EvalCompilerCfg ---------------------------
(***************************************************************************)
(* Oracle service for C12: interprets a compiler table supplied as JSON    *)
(* (the four built-in definition files, converted mechanically by the      *)
(* harness) with CompilerCfg.Parse for a list of commands.                 *)
(* Input file (environment variable CFG_FILE):                             *)
(*   [table |-> [name |-> compiler], cmds |-> Seq([name, argv : Seq(Tok)])  *)
(*    (, user |-> [name |-> compiler])]                                    *)
(***************************************************************************)
EXTENDS Naturals, Sequences, FiniteSets, TLC, Json, IOUtils, SequencesExt, CompilerCfg
In == JsonDeserialize(IOEnv.CFG_FILE)
\* with a field `user`: the built-in table extended by a user configuration (CompilerCfg.Extend)
Table == IF "user" \in DOMAIN In THEN Extend(In.table, In.user) ELSE In.table
VARIABLE i
Init == i = 1
ResOut(r) == [outcome |-> r.outcome, unknown_passes |-> r.unknown_passes, unrecognised |-> r.unrecognised,
              configs |-> SetToSeq({[pass |-> x.pass, defines |-> x.defines, ipaths |-> x.ipaths, ifiles |-> x.ifiles,
                                     modes |-> SetToSeq(x.modes), badmodes |-> SetToSeq(x.badmodes)] : x \in r.configs})]
Next == /\ i <= Len(In.cmds) /\ i' = i + 1
        /\ PrintT(ToJson([idx |-> i, res |-> ResOut(Parse(Table, In.cmds[i].name, In.cmds[i].argv))]))
Spec == Init /\ [][Next]_i
==============================================================================
