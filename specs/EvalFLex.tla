------------------------------ MODULE EvalFLex ------------------------------
(***************************************************************************)
(* Oracle service: evaluates the reference scanner FScan on texts supplied *)
(* by the harness (JSON array of arrays of lines in the file named by the  *)
(* environment variable TEXTS_FILE) - used for the texts derived from the  *)
(* transitions of the MC_FLex product graph.  One behaviour, one step per  *)
(* text; every verdict comes from FScan.ScanF.                             *)
(***************************************************************************)
EXTENDS Naturals, Sequences, FiniteSets, TLC, Json, IOUtils, FScan
CONSTANTS Shard, NShards
Texts == JsonDeserialize(IOEnv.TEXTS_FILE)
S(str) == [i \in 1..Len(str) |-> SubSeq(str, i, i)]
VARIABLE i
Init == i = 1
Next == /\ i <= Len(Texts)
        /\ i' = i + 1
        /\ (i % NShards = Shard) =>
             LET r == ScanF([k \in 1..Len(Texts[i]) |-> S(Texts[i][k])]) IN
             PrintT(ToJson([idx |-> i, ok |-> r.ok, counted |-> r.counted, dirs |-> r.dirs]))
Spec == Init /\ [][Next]_i
=============================================================================
