-------------------------- MODULE GenCompilerCfg --------------------------
(***************************************************************************)
(* Generator + design check for C12.                                       *)
(*                                                                         *)
(* Behaviours choose a user configuration: up to four compiler names, each *)
(* undefined, a compiler built from a subset of a rule catalogue (the      *)
(* three custom actions, with and without defaults / override), implicit   *)
(* options, modes and passes, or an alias of another name (chains, cycles, *)
(* dangling targets); then a HISTORY of commands processed one after the   *)
(* other by the same process.  The implementation model keeps what the     *)
(* code keeps between commands - the compiler table with its rule default *)
(* lists - and ShareDefaults says whether a command's flag-specific pass   *)
(* list aliases the table's default list (the code before the fix) or is a *)
(* copy.  Invariant HistoryIndependent: every command's result equals      *)
(* CompilerCfg.Parse on the ORIGINAL table.                                *)
(* Emit prints configuration, history and expected results.                *)
(***************************************************************************)
EXTENDS Naturals, Sequences, FiniteSets, TLC, Json, SequencesExt, CompilerCfg

CONSTANTS Profile, ShareDefaults, Shard, NShards

Mode(d, ip, f) == [defines |-> d, ipaths |-> ip, ifiles |-> f]
Pass(d, ms) == [defines |-> d, ipaths |-> <<>>, ifiles |-> <<>>, modes |-> ms]
Modes == [m1 |-> Mode(<<"MODE1">>, <<>>, <<"m1.h">>), m2 |-> Mode(<<"MODE2=2">>, <<"/m2inc">>, <<>>),
          m3 |-> Mode(<<>>, <<>>, <<"m1.h">>)]            \* contributes a forced include only
Passes == [p1 |-> Pass(<<"PASS1">>, <<"m1">>), pbad |-> Pass(<<"PBAD">>, <<"nomode">>),
           pinc |-> Pass(<<>>, <<"m3">>),                 \* differs from the default pass by include files only
           t_a |-> Pass(<<"TA">>, <<>>), t_b |-> Pass(<<"TB">>, <<"m2">>),
           sm_70 |-> Pass(<<"ARCH=700">>, <<>>), sm_75 |-> Pass(<<"ARCH=750">>, <<>>), sm_80 |-> Pass(<<"ARCH=800">>, <<>>)]

Rule(flags, action, dest, const, prefix, hasdef, default, override) ==
  [flags |-> flags, action |-> action, dest |-> dest, const |-> const, prefix |-> prefix, hasdef |-> hasdef,
   default |-> default, override |-> override, sep |-> ",", pattern |-> IF dest = "defines" THEN "[a-z]+" ELSE "(?:sm_|compute_)(\\d+)"]
Rules == [
  mode    |-> Rule(<<"-fmode">>, "append_const", "modes", "m1", "", FALSE, <<>>, FALSE),
  mode2   |-> Rule(<<"-fmode2">>, "append_const", "modes", "m2", "", FALSE, <<>>, FALSE),
  pass    |-> Rule(<<"-fpass">>, "append_const", "passes", "p1", "", FALSE, <<>>, FALSE),
  passbad |-> Rule(<<"-fpassbad">>, "append_const", "passes", "pbad", "", FALSE, <<>>, FALSE),
  pinc    |-> Rule(<<"-fpinc">>, "append_const", "passes", "pinc", "", FALSE, <<>>, FALSE),
  def     |-> Rule(<<"-fdef">>, "append_const", "defines", "FROM_FLAG", "", FALSE, <<>>, FALSE),
  split   |-> Rule(<<"-ftargets">>, "store_split", "passes", "", "t_", TRUE, <<"t_a">>, FALSE),
  splitnd |-> Rule(<<"-fonly">>, "store_split", "passes", "", "t_", FALSE, <<>>, FALSE),
  match   |-> Rule(<<"-farch", "--arch">>, "extend_match", "passes", "", "sm_", TRUE, <<"sm_70">>, TRUE),
  matchno |-> Rule(<<"-fgen">>, "extend_match", "passes", "", "sm_", TRUE, <<"sm_70">>, FALSE),
  words   |-> Rule(<<"-fwords">>, "extend_match", "defines", "", "W_", FALSE, <<>>, FALSE) ]

T0(f) == Tok(f, "", <<>>, <<>>)
Toks == [
  pinc |-> T0("-fpinc"), mode |-> T0("-fmode"), mode2 |-> T0("-fmode2"), pass |-> T0("-fpass"), passbad |-> T0("-fpassbad"), def |-> T0("-fdef"),
  tab |-> Tok("-ftargets", "a,b", <<"a", "b">>, <<>>), tb |-> Tok("-ftargets", "b", <<"b">>, <<>>),
  ob |-> Tok("-fonly", "b", <<"b">>, <<>>), tz |-> Tok("-ftargets", "zz", <<"zz">>, <<>>),
  a80 |-> Tok("-farch", "sm_80", <<>>, <<"80">>), a7580 |-> Tok("--arch", "compute_75,sm_80", <<>>, <<"75", "80">>),
  g80 |-> Tok("-fgen", "sm_80", <<>>, <<"80">>), g75 |-> Tok("-fgen", "compute_75", <<>>, <<"75">>),
  w |-> Tok("-fwords", "ab-cd", <<>>, <<"ab", "cd">>), du |-> Tok("-D", "U=1", <<>>, <<>>), dv |-> Tok("-D", "V", <<>>, <<>>),
  iu |-> Tok("-I", "/uinc", <<>>, <<>>), unk |-> T0("-fnot-modelled") ]

\* profile "h": ONE small configuration space, explored exhaustively, whose histories revolve around the
\* rules that keep state in the implementation (override / default pass lists): every pair of commands
\* (without "matchno": its default would keep sm_70 selected whatever the overriding rule does)
RuleSets == CASE Profile = "h" -> {{"mode", "pass", "split", "match", "words", "def", "pinc"}}
              [] Profile = "q" -> {{"mode", "pass", "split", "match", "matchno", "words", "def", "pinc"}, {"mode", "mode2", "splitnd", "passbad", "pinc"}}
              [] OTHER -> {{"mode", "pass", "split", "match", "matchno", "words", "def", "pinc"}, {"mode", "mode2", "splitnd", "passbad", "pinc"},
                           {"mode"}, {"matchno", "split"}, {"match", "splitnd"}, {}}
OptionSets == IF Profile = "h" THEN {<<>>}
              ELSE {<<>>, <<Tok("-D", "IMPL=1", <<>>, <<>>)>>, <<T0("-fmode")>>, <<Tok("-D", "IMPL=1", <<>>, <<>>), T0("-fpass")>>}
\* (names as drivers are really called: versioned, with dots and plus signs; the whole base name of argv[0] counts)
Names == IF Profile = "h" THEN <<"c1", "c2-13.2">> ELSE <<"c1", "c2-13.2", "c3.real", "c4++">>
AliasTargets == IF Profile = "h" THEN {"c1"} ELSE {"c1", "c2-13.2", "c3.real", "c4++", "ghost"}
TokNames == IF Profile = "h" THEN {"a80", "a7580", "g75", "tab", "tb", "pass"} ELSE IF Profile = "q" THEN {"pinc", "mode", "pass", "def", "tab", "tb", "a80", "a7580", "g80", "g75", "w", "du", "unk", "ob", "passbad"}
            ELSE DOMAIN Toks
MaxArgs == IF Profile = "h" THEN 1 ELSE 2
NCmds == 2

Compiler(rs, opts) == [alias |-> "", options |-> opts, rules |-> [i \in 1..Len(SetToSeq(rs)) |-> Rules[SetToSeq(rs)[i]]],
                       modes |-> IF rs = {} THEN [x \in {} |-> 0] ELSE Modes, passes |-> IF rs = {} THEN [x \in {} |-> 0] ELSE Passes]
AliasOf(t) == [EmptyCompiler EXCEPT !.alias = t]

VARIABLES stage, table0, table, i, hist, argv, results
vars == <<stage, table0, table, i, hist, argv, results>>
EmptyT == [x \in {} |-> 0]
Init == stage = "cfg" /\ table0 = EmptyT /\ table = EmptyT /\ i = 1 /\ hist = <<>> /\ argv = <<>> /\ results = <<>>

DefineName ==
  /\ stage = "cfg" /\ i <= Len(Names)
  /\ \/ table0' = table0                                                              \* leave undefined
     \* (a definition with neither rules nor options is an empty table, which the configuration schema
     \*  cannot tell from an empty alias and rejects: not a configuration)
     \/ \E rs \in RuleSets, o \in OptionSets : ~(rs = {} /\ o = <<>>) /\ table0' = table0 @@ (Names[i] :> Compiler(rs, o))
     \/ \E t \in AliasTargets : t # Names[i] /\ table0' = table0 @@ (Names[i] :> AliasOf(t))
     \/ table0' = table0 @@ (Names[i] :> AliasOf(Names[i]))                            \* self loop
  /\ i' = i + 1 /\ UNCHANGED <<stage, table, hist, argv, results>>
CfgDone == /\ stage = "cfg" /\ i > Len(Names) /\ table0 # EmptyT
           /\ stage' = "cmd" /\ table' = table0 /\ UNCHANGED <<table0, i, hist, argv, results>>

AddArg == /\ stage = "cmd" /\ Len(argv) < MaxArgs /\ Len(hist) < NCmds
          /\ \E t \in TokNames : argv' = Append(argv, Toks[t])
          /\ UNCHANGED <<stage, table0, table, i, hist, results>>

\* ---- implementation model of one parse_args call: result + what it leaves in the table ------
ImplResult(name) == Parse(table, name, argv)
\* non-override extend_match rules with a default whose flag was used: the extended list IS the default
Leak(name) ==
  LET r == ResolveAlias(table, name) IN
  IF ~ShareDefaults \/ r.outcome # "ok" THEN table
  ELSE LET c == table[r.target]
           all == argv \o c.options
           ns == Fold(c, InitNS(c), all, 1)
           hit(k) == c.rules[k].action = "extend_match" /\ c.rules[k].dest = "passes" /\ c.rules[k].hasdef
                     /\ ~c.rules[k].override /\ \E j \in 1..Len(all) : RuleIdx(c, all[j].flag) = k
       IN [table EXCEPT ![r.target].rules = [k \in 1..Len(c.rules) |->
                IF hit(k) THEN [c.rules[k] EXCEPT !.default = ns.pp[c.rules[k].flags[1]]] ELSE c.rules[k]]]

RunCmd == /\ stage = "cmd" /\ Len(hist) < NCmds
          /\ \E nm \in {Names[k] : k \in 1..Len(Names)} \cup {"nobody"} :
               /\ hist' = Append(hist, [name |-> nm, argv |-> argv])
               /\ results' = Append(results, ImplResult(nm))
               /\ table' = Leak(nm)
          /\ argv' = <<>> /\ UNCHANGED <<stage, table0, i>>

\* M: no command's result depends on the commands processed before it
HistoryIndependent == \A k \in 1..Len(hist) : results[k] = Parse(table0, hist[k].name, hist[k].argv)
\* M: alias resolution always terminates with one of the four outcomes
AliasTotal == stage # "cfg" => \A n \in DOMAIN table0 : ResolveAlias(table0, n).outcome \in {"ok", "loop", "unknown-target"}

CfgOut(c) == [alias |-> c.alias, options |-> c.options, rules |-> c.rules,
              modes |-> [m \in DOMAIN c.modes |-> c.modes[m]], passes |-> [p \in DOMAIN c.passes |-> c.passes[p]]]
ResOut(r) == [outcome |-> r.outcome, unknown_passes |-> r.unknown_passes, unrecognised |-> r.unrecognised,
              configs |-> SetToSeq({[pass |-> x.pass, defines |-> x.defines, ipaths |-> x.ipaths, ifiles |-> x.ifiles,
                                     modes |-> SetToSeq(x.modes), badmodes |-> SetToSeq(x.badmodes)] : x \in r.configs})]
Hash == (Cardinality(DOMAIN table0) * 3 + Len(hist[1].argv) + Len(hist[NCmds].argv) * 5) % NShards
Emit == /\ stage = "cmd" /\ Len(hist) = NCmds /\ stage' = "done"
        /\ UNCHANGED <<table0, table, i, hist, argv, results>>
        /\ (Hash = Shard) =>
             PrintT(ToJson([table |-> [n \in DOMAIN table0 |-> CfgOut(table0[n])], hist |-> hist,
                            expect |-> [k \in 1..Len(hist) |-> ResOut(Parse(table0, hist[k].name, hist[k].argv))],
                            modecat |-> [m \in DOMAIN Modes |-> Modes[m]]]))
Next == DefineName \/ CfgDone \/ AddArg \/ RunCmd \/ Emit
Spec == Init /\ [][Next]_vars
============================================================================
