------------------------------ MODULE GenFLex ------------------------------
(***************************************************************************)
(* Generator for C17: behaviours build a free-form Fortran text line by    *)
(* line from a catalogue of line templates (statements, character literals *)
(* with doubled quotes and embedded ! & //, trailing and full-line         *)
(* comments, directive sentinels, & continuations with and without leading *)
(* &, comments interleaved in continued statements, preprocessor           *)
(* directives incl. continued ones).  Every sequence of up to MaxLines     *)
(* templates is enumerated; the reference scanner FScan filters the        *)
(* well-formed ones and gives the expected classification.                 *)
(***************************************************************************)
EXTENDS Naturals, Sequences, FiniteSets, TLC, Json, FScan

CONSTANTS Profile, MaxLines, Shard, NShards

S(str) == [i \in 1..Len(str) |-> SubSeq(str, i, i)]

Stmts == {"x = 1", "  call f(a)", "s = 'a!b'", "s = \"c&d\"", "s = 'it''s'", "s = \"a//b\" // 'c'",
          "print *, 'x' ! trailing", "y = 2 ! it's", "s = '&'", "s = \"!$omp\"", "s = \"save & ! text\"",
          "s = 'a ! b' // 'c'", "t = 'x&' // \"!\""}
Blanks == {"", "   "}
Comments == {"! note", "  ! 'quote", "!", "! & more", "!x y$"}
Sentinels == {"!$ 3 + &", "!$omp parallel", "  !$acc loop", "!dir$ ivdep", "!$omp end parallel ! c", "!DIR$ IVDEP", "!Gcc$ unroll 4"}
Starts == {"s = 'a' &", "x = 1 + &", "x = 1 + & ! why", "call f(a, &", "s = 'abc&", "z = 3 &", "s = 'a!b&", "s = \"e!f&", "s = \"e!f\" // \"x&", "s = \"p // q &\" // &",
           "s = 'u ! v' // &"}
Conts == {"  // 'b' &", "  // 'c'", "  2", "& 2", "  & 2 + &", "    b)", "  &def'", "&   4 ! t", "  &c!d'", "  &g!h\"", "  &y\"", "  'w'"}
Dirs == {"#if 1", "#ifdef X", "#else", "#endif", "#define X 1", "#  define Y \\", "  2", "#undef X", "# if defined(X) /* c */",
         "#else ! isn't", "#ifdef X ! \"q"}

Lines == IF Profile = "cont"
         THEN {"s = 'abc&", "#ifdef X", "#endif", "! note", "  &def'", "x = 1 + &", "  2", "s = \"e!f&", "  &g!h\"",
               "s = 'a' &", "#else ! isn't", "  // 'b' &", "  // 'c'", "#ifdef X ! \"q", "!$ 3 + &"}
         ELSE IF Profile = "small"
         THEN {"x = 1", "s = 'a!b'", "s = \"c&d\"", "", "! note", "!$omp parallel", "!DIR$ IVDEP", "x = 1 + &", "  2", "& 2", "s = 'abc&",
               "  &def'", "#define X 1", "#  define Y \\", "print *, 'x' ! trailing", "  ! 'quote", "x = 1 + & ! why", "s = 'it''s'",
               "s = \"save & ! text\"", "s = 'a!b&", "  &c!d'", "s = 'u ! v' // &", "  'w'", "s = \"e!f&", "  &g!h\"", "s = \"e!f\" // \"x&", "  &y\""}
         ELSE Stmts \cup Blanks \cup Comments \cup Sentinels \cup Starts \cup Conts \cup Dirs

VARIABLES text, done
vars == <<text, done>>
Init == text = <<>> /\ done = FALSE
Add == /\ ~done /\ Len(text) < MaxLines
       /\ \E l \in Lines : text' = Append(text, l)
       /\ UNCHANGED done

\* conditional directives must nest properly (a compiler rejects a stray #else/#endif)
Opens == {"#if 1", "#ifdef X", "# if defined(X) /* c */", "#ifdef X ! \"q"}
RECURSIVE BalR(_, _, _)
BalR(t, i, d) == IF i > Len(t) THEN d = 0
                 ELSE IF t[i] \in Opens THEN BalR(t, i + 1, d + 1)
                 ELSE IF t[i] \in {"#else", "#else ! isn't"} THEN d > 0 /\ BalR(t, i + 1, d)
                 ELSE IF t[i] = "#endif" THEN d > 0 /\ BalR(t, i + 1, d - 1)
                 ELSE BalR(t, i + 1, d)
Balanced == BalR(text, 1, 0)

Chars == [i \in 1..Len(text) |-> S(text[i])]
Hash == (Len(text) * 5 + Cardinality({i \in 1..Len(text) : Len(text[i]) > 6}) * 3
         + Cardinality({i \in 1..Len(text) : Len(text[i]) % 2 = 0})) % NShards

Emit == /\ ~done /\ text # <<>> /\ done' = TRUE /\ UNCHANGED text
        /\ (Hash = Shard) =>
             LET r == ScanF(Chars) IN
             (r.ok /\ Balanced) => PrintT(ToJson([lines |-> text, counted |-> r.counted, dirs |-> r.dirs]))
Next == Add \/ Emit
Spec == Init /\ [][Next]_vars

RefSane == (~done /\ text # <<>>) =>
   LET r == ScanF(Chars) IN
   r.ok => /\ r.counted \subseteq 1..Len(text)
           /\ \A i \in 1..Len(r.dirs) : r.dirs[i] \subseteq r.counted
============================================================================
