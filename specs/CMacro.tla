------------------------------- MODULE CMacro -------------------------------
(***************************************************************************)
(* Reference semantics of C macro expansion (C11 6.10.3): Prosser's        *)
(* algorithm with hide sets.  A token is [s (spelling), k (kind), hs (hide *)
(* set)].  A macro table M maps names to [fn, params, va, body].           *)
(*   Expand(M, ts, n)  expands a token sequence with fuel n (fuel is never *)
(*                     exhausted on terminating inputs - checked by TLC)   *)
(*   Subst             argument substitution with #, ## and pre-expansion  *)
(* __ILL__ marks an invocation a compiler would reject (arity mismatch,    *)
(* unterminated argument list); such cases are outside the property.       *)
(***************************************************************************)
EXTENDS Naturals, Sequences, FiniteSets, TLC, Json
\* token = [s : STRING, k : kind, hs : SUBSET STRING]; kinds: id num op lp rp comma str hash hashhash
T(s, k) == [s |-> s, k |-> k, hs |-> {}]
Id(s) == T(s, "id")  Num(s) == T(s, "num")  Op(s) == T(s, "op")
LP == T("(", "lp")  RP == T(")", "rp")  CM == T(",", "comma")  HASH == T("#", "hash")  HH == T("##", "hashhash")


Drop(s, n) == SubSeq(s, n+1, Len(s))
HsAdd(hs, ts) == [i \in 1..Len(ts) |-> [ts[i] EXCEPT !.hs = @ \cup hs]]

RECURSIVE Collect(_,_,_,_)
Collect(ts, depth, cur, args) ==
  IF ts = <<>> THEN [ok |-> FALSE, args |-> <<>>, after |-> <<>>, rphs |-> {}]
  ELSE LET t == Head(ts) IN
    IF t.k = "rp" /\ depth = 0 THEN [ok |-> TRUE, args |-> Append(args, cur), after |-> Tail(ts), rphs |-> t.hs]
    ELSE IF t.k = "comma" /\ depth = 0 THEN Collect(Tail(ts), 0, <<>>, Append(args, cur))
    ELSE Collect(Tail(ts), IF t.k = "lp" THEN depth+1 ELSE IF t.k = "rp" THEN depth-1 ELSE depth, Append(cur, t), args)

RECURSIVE JoinComma(_)
JoinComma(as) == IF as = <<>> THEN <<>> ELSE IF Len(as) = 1 THEN as[1] ELSE as[1] \o <<CM>> \o JoinComma(Tail(as))

\* normalise actuals against formals: F() with no params -> no args; variadic tail joined by commas
Actuals(m, args) ==
  LET np == Len(m.params) IN
  IF np = 0 /\ ~m.va THEN <<>>
  ELSE IF m.va THEN
       LET fixed == [i \in 1..np |-> IF i <= Len(args) THEN args[i] ELSE <<>>]
           rest == IF Len(args) > np THEN JoinComma(Drop(args, np)) ELSE <<>>
       IN Append(fixed, rest)
  ELSE args
Formals(m) == IF m.va THEN Append(m.params, "__VA_ARGS__") ELSE m.params
ArityOK(m, args) ==
  LET np == Len(m.params) IN
  IF m.va THEN Len(args) >= np \/ (np = 1 /\ Len(args) = 1)  \* gcc allows omitting the variadic part
  ELSE IF np = 0 THEN Len(args) = 1 /\ args[1] = <<>>
  ELSE Len(args) = np

Idx(fp, s) == IF \E i \in 1..Len(fp) : fp[i] = s THEN CHOOSE i \in 1..Len(fp) : fp[i] = s ELSE 0
IsParam(fp, t) == t.k = "id" /\ Idx(fp, t.s) # 0

PasteKind(a, b) == IF a.k = "id" THEN "id" ELSE IF a.k = "num" THEN "num" ELSE a.k
\* ## must produce ONE valid preprocessing token, else the program is ill-formed (gcc: error).
\* identifiers and pp-numbers paste with each other; anything else is treated as invalid here
\* (conservative: the generators never rely on operator pastes such as < ## <).
PasteOK(a, b) == a.k \in {"id", "num"} /\ b.k \in {"id", "num"}
Paste(a, b) == IF PasteOK(a, b) THEN [s |-> a.s \o b.s, k |-> PasteKind(a, b), hs |-> a.hs \cap b.hs]
               ELSE [s |-> "__ILL__", k |-> "id", hs |-> {}]
RECURSIVE Glue(_,_)
Glue(ls, rs) ==
  IF ls = <<>> THEN rs
  ELSE IF rs = <<>> THEN ls
  ELSE IF Len(ls) = 1 THEN <<Paste(ls[1], rs[1])>> \o Tail(rs)
  ELSE <<Head(ls)>> \o Glue(Tail(ls), rs)

RECURSIVE Spell(_)
Spell(ts) == IF ts = <<>> THEN "" ELSE IF Len(ts) = 1 THEN ts[1].s ELSE ts[1].s \o " " \o Spell(Tail(ts))
\* spelling of a token inside a stringification: in string literals (and character constants)
\* every " and \ is preceded by a \  (C11 6.10.3.2)
RECURSIVE EscStr(_, _)
EscStr(s, i) == IF i > Len(s) THEN ""
                ELSE LET c == SubSeq(s, i, i) IN
                     (IF c = "\"" \/ c = "\\" THEN "\\" \o c ELSE c) \o EscStr(s, i + 1)
EscSp(t) == IF t.k # "str" THEN t.s ELSE EscStr(t.s, 1)
RECURSIVE SpellEsc(_)
SpellEsc(ts) == IF ts = <<>> THEN "" ELSE IF Len(ts) = 1 THEN EscSp(ts[1]) ELSE EscSp(ts[1]) \o " " \o SpellEsc(Tail(ts))
Stringize(ts) == [s |-> "\"" \o SpellEsc(ts) \o "\"", k |-> "str", hs |-> {}]

RECURSIVE Expand(_,_,_), Subst(_,_,_,_,_,_,_)
Expand(M, ts, n) ==
  IF ts = <<>> THEN <<>>
  ELSE LET t == Head(ts) rest == Tail(ts) IN
   IF n = 0 THEN <<T("__FUEL__", "id")>>
   ELSE IF t.k # "id" \/ t.s \notin DOMAIN M \/ t.s \in t.hs THEN <<t>> \o Expand(M, rest, n)
   ELSE LET m == M[t.s] IN
     IF ~m.fn THEN Expand(M, Subst(M, m.body, <<>>, <<>>, t.hs \cup {t.s}, <<>>, n-1) \o rest, n-1)
     ELSE IF rest = <<>> \/ Head(rest).k # "lp" THEN <<t>> \o Expand(M, rest, n)
     ELSE LET ap == Collect(Tail(rest), 0, <<>>, <<>>) IN
          IF ~ap.ok \/ ~ArityOK(m, ap.args) THEN <<T("__ILL__", "id")>>
          ELSE Expand(M, Subst(M, m.body, Formals(m), Actuals(m, ap.args), (t.hs \cap ap.rphs) \cup {t.s}, <<>>, n-1) \o ap.after, n-1)

Subst(M, is, fp, ap, hs, os, n) ==
  IF is = <<>> THEN HsAdd(hs, os)
  ELSE LET t == is[1] IN
   IF t.k = "hash" /\ Len(is) >= 2 /\ IsParam(fp, is[2])
     THEN Subst(M, Drop(is, 2), fp, ap, hs, Append(os, Stringize(ap[Idx(fp, is[2].s)])), n)
   ELSE IF t.k = "hashhash" /\ Len(is) >= 2
     THEN IF IsParam(fp, is[2])
            THEN LET a == ap[Idx(fp, is[2].s)] IN
                 IF a = <<>> THEN Subst(M, Drop(is, 2), fp, ap, hs, os, n)
                 ELSE Subst(M, Drop(is, 2), fp, ap, hs, Glue(os, a), n)
            ELSE Subst(M, Drop(is, 2), fp, ap, hs, Glue(os, <<is[2]>>), n)
   ELSE IF IsParam(fp, t) /\ Len(is) >= 2 /\ is[2].k = "hashhash"
     THEN LET a == ap[Idx(fp, t.s)] IN
          IF a = <<>>
            THEN IF Len(is) >= 3 /\ IsParam(fp, is[3])
                   THEN Subst(M, Drop(is, 3), fp, ap, hs, os \o ap[Idx(fp, is[3].s)], n)
                   ELSE Subst(M, Drop(is, 2), fp, ap, hs, os, n)
            ELSE Subst(M, Tail(is), fp, ap, hs, os \o a, n)
   ELSE IF IsParam(fp, t) THEN Subst(M, Tail(is), fp, ap, hs, os \o Expand(M, ap[Idx(fp, t.s)], n), n)
   ELSE Subst(M, Tail(is), fp, ap, hs, Append(os, t), n)

Obj(body) == [fn |-> FALSE, params |-> <<>>, va |-> FALSE, body |-> body]
Fn(params, body) == [fn |-> TRUE, params |-> params, va |-> FALSE, body |-> body]
VFn(params, body) == [fn |-> TRUE, params |-> params, va |-> TRUE, body |-> body]
=============================================================================
