SPECIFICATION Spec
CONSTANTS
  MaxDir = 4
  MaxNest = 2
  Shard = 0
  NShards = 1
  EvalElifFirst = FALSE
  Rich = FALSE
INVARIANT ImplMatchesRef
INVARIANT RefTotal
INVARIANT DefsOnlyWhereReached
CHECK_DEADLOCK FALSE
