--------------------------- MODULE MC_Isolation ---------------------------
(***************************************************************************)
(* C08 at design level: the analysis loop of finder.find as a machine.     *)
(*                                                                         *)
(* After GenScen has built a scenario (files + translation units), the     *)
(* TUs are processed ONE AT A TIME IN ANY ORDER (TLC explores every        *)
(* order).  ProcessTU(i) is the body of the loop: create the per-command   *)
(* state, run the TU, add what it used to the platform's association.      *)
(* What survives from one TU to the next is explicit in `carry`, and the   *)
(* constant Reset says what the loop throws away at the start of a TU:     *)
(*   "all"        fresh macro table, fresh include-once set   (the code)   *)
(*   "keep_once"  the include-once set survives within a platform          *)
(*   "keep_defs"  the macro table survives within a platform               *)
(* Invariant Composition: when every TU has been processed, in whatever    *)
(* order, each platform's association equals the union of its TUs analysed *)
(* ALONE from a fresh state.  It holds for "all" and TLC exhibits a        *)
(* schedule violating it for the other two.                                *)
(***************************************************************************)
EXTENDS GenScen

CONSTANT Reset

VARIABLES pending,  \* TUs not yet processed
          assoc,    \* [platform -> SUBSET (FileId \X Nat)]  the only state meant to outlive a TU
          carry,    \* [platform -> [defs, once]] what the previous TU of the platform left behind
          order     \* the schedule so far (for counterexamples)
ivars == <<pending, assoc, carry, order>>

PlatSet == {Plats[i] : i \in 1..Len(Plats)}
NoCarry == [defs |-> [m \in Macros |-> "U"], once |-> {}, used |-> FALSE]

InitI == Init /\ pending = {} /\ assoc = [p \in PlatSet |-> {}]
              /\ carry = [p \in PlatSet |-> NoCarry] /\ order = <<>>

BuildStep == /\ (SkipSlot \/ AddHeader \/ HdrDone \/ AddStmt \/ CloseMain \/ AddEntry)
             /\ UNCHANGED ivars

StartRun == /\ stage = "tu" /\ Len(ents) = NEntries
            /\ stage' = "run" /\ pending' = 1..NEntries
            /\ UNCHANGED <<si, files, cur, ns, ents, assoc, carry, order>>

Merge(base, extra) == [m \in Macros |-> IF extra[m] # "U" THEN extra[m] ELSE base[m]]

ProcessTU(i) ==
  LET e  == RefEntry(ents[i])
      p  == ents[i].plat
      c  == carry[p]
      s0 == InitState(files, e)
      s1 == [s0 EXCEPT !.once = IF Reset = "keep_once" THEN c.once ELSE {},
                       !.defs = IF Reset = "keep_defs" /\ c.used THEN Merge(e.defs, c.defs) ELSE e.defs]
      r  == RunFrom(files, e.idirs, s1, 400)
  IN /\ stage = "run" /\ i \in pending
     /\ pending' = pending \ {i}
     /\ assoc' = [assoc EXCEPT ![p] = @ \cup r.attr]
     /\ carry' = [carry EXCEPT ![p] = [defs |-> r.defs, once |-> r.once, used |-> TRUE]]
     /\ order' = Append(order, i)
     /\ UNCHANGED <<stage, si, files, cur, ns, ents>>

NextI == BuildStep \/ StartRun \/ \E i \in 1..NEntries : ProcessTU(i)
SpecI == InitI /\ [][NextI]_<<vars, ivars>>

WellFormedScenario == \A i \in 1..Len(ents) : ~Run(ents[i]).err

Composition ==
  (stage = "run" /\ pending = {} /\ WellFormedScenario) =>
     \A p \in PlatSet : assoc[p] = UNION {Run(ents[i]).attr : i \in {j \in 1..Len(ents) : ents[j].plat = p}}

\* removing a platform from the analysis removes exactly its name: the other platforms'
\* associations never depend on it (they are functions of their own TUs only)
Projection ==
  (stage = "run" /\ pending = {} /\ WellFormedScenario) =>
     \A p \in PlatSet : assoc[p] \subseteq UNION {Run(ents[i]).attr : i \in {j \in 1..Len(ents) : ents[j].plat = p}}

AssocMonotone == [][\A p \in PlatSet : assoc[p] \subseteq assoc'[p]]_<<vars, ivars>>
===========================================================================
