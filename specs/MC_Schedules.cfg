SPECIFICATION Spec
CONSTANTS
  LabelOrder = "sorted"
  Shard = 0
  NShards = 1
INVARIANT Confluent
CHECK_DEADLOCK FALSE
