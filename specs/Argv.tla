------------------------------- MODULE Argv -------------------------------
(***************************************************************************)
(* C11: which preprocessor options a compiler command line carries.        *)
(* Reference: ONE left-to-right scan, as a compiler driver does it.        *)
(*   -D -I -isystem -include take their value attached (-DX, -Idir) or as  *)
(*   the next argument (-D X), whatever that argument looks like;          *)
(*   options CBI does not model are skipped - together with their value if *)
(*   the compiler defines them with a separate value (-MF x, -o x, -x c,   *)
(*   -ccbin g++, -cxx-isystem d, ...); everything else is skipped alone.   *)
(* Result: defines, -I dirs, -isystem dirs, forced includes, each in       *)
(* command-line order; search order = -I dirs then -isystem dirs.          *)
(***************************************************************************)
EXTENDS Naturals, Sequences, FiniteSets, TLC, Json

HasPrefix(s, p) == Len(s) >= Len(p) /\ SubSeq(s, 1, Len(p)) = p
After(s, p) == SubSeq(s, Len(p) + 1, Len(s))

\* unmodelled options that take a SEPARATE value
Arity1 == {"-MF", "-MT", "-MQ", "-o", "-x", "-ccbin", "-cxx-isystem", "-arch", "-Xlinker", "-Xcompiler", "-isysroot",
           "-idirafter", "-iquote", "--param", "-target"}

Empty == [defines |-> <<>>, idirs |-> <<>>, sysdirs |-> <<>>, forced |-> <<>>, ok |-> TRUE]

RECURSIVE ScanR(_, _, _)
ScanR(argv, i, acc) ==
  IF i > Len(argv) THEN acc
  ELSE
  LET t == argv[i]
      hasNext == i < Len(argv)
      take(field, p) ==
        IF t = p THEN (IF hasNext THEN ScanR(argv, i + 2, [acc EXCEPT ![field] = Append(@, argv[i + 1])])
                       ELSE [acc EXCEPT !.ok = FALSE])
        ELSE ScanR(argv, i + 1, [acc EXCEPT ![field] = Append(@, After(t, p))])
  IN
  IF HasPrefix(t, "-D") THEN take("defines", "-D")
  ELSE IF HasPrefix(t, "-isystem") THEN take("sysdirs", "-isystem")
  ELSE IF HasPrefix(t, "-include") THEN take("forced", "-include")
  ELSE IF HasPrefix(t, "-I") THEN take("idirs", "-I")
  ELSE IF t \in Arity1 THEN (IF hasNext THEN ScanR(argv, i + 2, acc) ELSE [acc EXCEPT !.ok = FALSE])
  ELSE ScanR(argv, i + 1, acc)

Scan(argv) == ScanR(argv, 1, Empty)
SearchOrder(r) == r.idirs \o r.sysdirs
===========================================================================
