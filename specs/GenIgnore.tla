------------------------------ MODULE GenIgnore ------------------------------
(***************************************************************************)
(* Generator + design check for C09: a fixed, deliberately awkward tree    *)
(* (names with spaces and glob metacharacters, a directory with a source   *)
(* extension, a directory called like a file stem, hidden files, a sibling *)
(* root sharing the root's name as a prefix, file and directory symlinks   *)
(* inside and to the outside, a dangling link) crossed with every list of  *)
(* up to MaxPats patterns from a catalogue covering the pattern language.  *)
(* Membership (CodeBase.tla-style, stated here):                           *)
(*   Member(spelling) == the spelling resolves (FileSys.Resolve) to an     *)
(*   existing REGULAR file with a source extension under the root that is  *)
(*   not Ignored (GitIgnore) relative to the root.                         *)
(* Invariants: membership is spelling independent; enumeration = members.  *)
(***************************************************************************)
EXTENDS Naturals, Sequences, FiniteSets, TLC, Json, SequencesExt, FileSys, GitIgnore

CONSTANTS MaxPats, Shard, NShards

Root == <<"B", "root">>
R(p) == Root \o p
\* regular files (canonical paths)
RegFiles == {R(<<"a.c">>), R(<<"b.h">>), R(<<"notes.txt">>), R(<<"noext">>), R(<<"a b.c">>), R(<<"[x].c">>), R(<<"a*.c">>),
             R(<<".hidden.c">>), R(<<"d1", "a.c">>), R(<<"d1", "ab.c">>), R(<<"d1", "d2", "a.c">>), R(<<"d1", "d2", "deep.h">>),
             R(<<"build", "gen.c">>), R(<<"a", "a.c">>), R(<<"src.c", "in.c">>), R(<<"d1", "Makefile">>),
             R(<<".c">>), R(<<"d1", ".h">>),       \* hidden files whose whole name looks like an extension: no extension at all
             \* recognised extensions with regex metacharacters, case-sensitive ones, look-alikes, a double extension
             R(<<"x.c++">>), R(<<"d1", "y.h++">>), R(<<"z.ccc">>), R(<<"w.hhh">>), R(<<"k.F90">>), R(<<"up.C">>),
             R(<<"t.cu">>), R(<<"m.cpp.txt">>), R(<<"v.S">>), R(<<"n.f9">>),
             <<"B", "root2", "x.c">>, <<"B", "outside", "o.c">>}
Dirs == {Root, R(<<"d1">>), R(<<"d1", "d2">>), R(<<"build">>), R(<<"a">>), R(<<"src.c">>), <<"B", "root2">>, <<"B", "outside">>}
Links == [p \in {R(<<"lnk_d1">>), R(<<"la.c">>), R(<<"lout.c">>), R(<<"dangling.c">>), R(<<"lnk_out">>), R(<<"d1", "back">>),
                 R(<<"d1", "d2", "up">>)} |->
            CASE p = R(<<"lnk_d1">>) -> R(<<"d1">>) [] p = R(<<"la.c">>) -> R(<<"a.c">>)
              [] p = R(<<"lout.c">>) -> <<"B", "outside", "o.c">> [] p = R(<<"dangling.c">>) -> R(<<"nowhere.c">>)
              [] p = R(<<"lnk_out">>) -> <<"B", "outside">> [] p = R(<<"d1", "back">>) -> Root
              [] p = R(<<"d1", "d2", "up">>) -> R(<<"a">>)]      \* a link two levels down to a directory whose parent is the root
\* the recognised source extensions (documentation: "Supported Languages"); the extension is what follows the
\* LAST dot of the name, and a name that only starts with a dot has none
Exts == {".f90", ".F90", ".f", ".ftn", ".fpp", ".F", ".FOR", ".FTN", ".FPP", ".c", ".h", ".c++", ".cxx", ".cpp", ".cc",
         ".hpp", ".hxx", ".h++", ".hh", ".inc", ".inl", ".tcc", ".icc", ".ipp", ".cu", ".cuh", ".cl", ".s", ".S", ".asm"}
RECURSIVE LastDot(_, _)
LastDot(name, i) == IF i = 0 THEN 0 ELSE IF SubSeq(name, i, i) = "." THEN i ELSE LastDot(name, i - 1)
Suffix(name) == LET d == LastDot(name, Len(name)) IN IF d <= 1 THEN "" ELSE SubSeq(name, d, Len(name))
SourceExt(name) == Suffix(name) \in Exts

\* ---- pattern catalogue -------------------------------------------------------------------------
L(s) == [i \in 1..Len(s) |-> [t |-> "c", c |-> SubSeq(s, i, i)]]
ST == <<[t |-> "star"]>>
Q == <<[t |-> "q"]>>
Cls(S) == <<[t |-> "cls", set |-> S, neg |-> FALSE]>>
NCls(S) == <<[t |-> "cls", set |-> S, neg |-> TRUE]>>
SS == <<[t |-> "ss"]>>
P(txt, neg, anch, dironly, segs) == [kind |-> "pat", txt |-> txt, neg |-> neg, anchored |-> anch, dironly |-> dironly, segs |-> segs]
Cat == [
  p01 |-> P("a.c", FALSE, FALSE, FALSE, <<L("a.c")>>),
  p02 |-> P("/a.c", FALSE, TRUE, FALSE, <<L("a.c")>>),
  p03 |-> P("*.c", FALSE, FALSE, FALSE, <<ST \o L(".c")>>),
  p04 |-> P("*.h", FALSE, FALSE, FALSE, <<ST \o L(".h")>>),
  p05 |-> P("d1/", FALSE, FALSE, TRUE, <<L("d1")>>),
  p06 |-> P("d1", FALSE, FALSE, FALSE, <<L("d1")>>),
  p07 |-> P("/d1/d2/", FALSE, TRUE, TRUE, <<L("d1"), L("d2")>>),
  p08 |-> P("d1/d2", FALSE, TRUE, FALSE, <<L("d1"), L("d2")>>),
  p09 |-> P("d2/", FALSE, FALSE, TRUE, <<L("d2")>>),
  p10 |-> P("**/a.c", FALSE, TRUE, FALSE, <<SS, L("a.c")>>),
  p11 |-> P("d1/**", FALSE, TRUE, FALSE, <<L("d1"), SS>>),
  p12 |-> P("d1/**/a.c", FALSE, TRUE, FALSE, <<L("d1"), SS, L("a.c")>>),
  p13 |-> P("a?.c", FALSE, FALSE, FALSE, <<L("a") \o Q \o L(".c")>>),
  p14 |-> P("[ab].[ch]", FALSE, FALSE, FALSE, <<Cls({"a", "b"}) \o L(".") \o Cls({"c", "h"})>>),
  p15 |-> P("\\[x\\].c", FALSE, FALSE, FALSE, <<L("[x].c")>>),
  p16 |-> P("a\\*.c", FALSE, FALSE, FALSE, <<L("a*.c")>>),
  p17 |-> P("a b.c", FALSE, FALSE, FALSE, <<L("a b.c")>>),
  p18 |-> P("!a.c", TRUE, FALSE, FALSE, <<L("a.c")>>),
  p19 |-> P("!d1/a.c", TRUE, TRUE, FALSE, <<L("d1"), L("a.c")>>),
  p20 |-> [kind |-> "comment", txt |-> "# a.c", neg |-> FALSE, anchored |-> FALSE, dironly |-> FALSE, segs |-> <<>>],
  p21 |-> [kind |-> "blank", txt |-> "", neg |-> FALSE, anchored |-> FALSE, dironly |-> FALSE, segs |-> <<>>],
  p22 |-> P("build", FALSE, FALSE, FALSE, <<L("build")>>),
  p23 |-> P("/build/", FALSE, TRUE, TRUE, <<L("build")>>),
  p24 |-> P("*", FALSE, FALSE, FALSE, <<ST>>),
  p25 |-> P("!*.h", TRUE, FALSE, FALSE, <<ST \o L(".h")>>),
  p26 |-> P(".*", FALSE, FALSE, FALSE, <<L(".") \o ST>>),
  p27 |-> P("src.c", FALSE, FALSE, FALSE, <<L("src.c")>>),
  p28 |-> P("a", FALSE, FALSE, FALSE, <<L("a")>>),
  p29 |-> P("[!a]*.c", FALSE, FALSE, FALSE, <<NCls({"a"}) \o ST \o L(".c")>>),
  p30 |-> P("d1/*.c", FALSE, TRUE, FALSE, <<L("d1"), ST \o L(".c")>>),
  p31 |-> P("*/a.c", FALSE, TRUE, FALSE, <<ST, L("a.c")>>),
  p32 |-> P("!d1/", TRUE, FALSE, TRUE, <<L("d1")>>),
  p33 |-> P("a.c/", FALSE, FALSE, TRUE, <<L("a.c")>>),
  p34 |-> P("a*", FALSE, FALSE, FALSE, <<L("a") \o ST>>),
  p35 |-> P("/*.c", FALSE, TRUE, FALSE, <<ST \o L(".c")>>),
  p36 |-> P("!/a.c", TRUE, TRUE, FALSE, <<L("a.c")>>) ]

VARIABLES pats, done
vars == <<pats, done>>
Init == pats = <<>> /\ done = FALSE
Add == ~done /\ Len(pats) < MaxPats /\ (\E n \in DOMAIN Cat : pats' = Append(pats, Cat[n])) /\ UNCHANGED done

\* ---- membership ------------------------------------------------------------------------------
Member(spelling) ==
  LET p == Resolve(Links, spelling) IN
  /\ p \in RegFiles
  /\ SourceExt(p[Len(p)])
  /\ Prefix(Root, p) /\ Len(p) > Len(Root)
  /\ ~Ignored(pats, Drop(p, Len(Root)))
Members == {p \in RegFiles : Member(p)}

\* alias spellings of a canonical file
Spell(p) == {p} \cup (IF Prefix(R(<<"d1">>), p) THEN {R(<<"lnk_d1">>) \o Drop(p, Len(Root) + 1),
                                                     R(<<"d1", "..", "d1">>) \o Drop(p, Len(Root) + 1),
                                                     R(<<"d1", "back", "d1">>) \o Drop(p, Len(Root) + 1)} ELSE {})
                \cup (IF p = R(<<"a.c">>) THEN {R(<<"la.c">>), R(<<".", "a.c">>), R(<<"d1", "..", "a.c">>), R(<<"d1", "back", "a.c">>),
                                                 \* ".." AFTER a directory link leads to the physical parent of the link's target
                                                 \* (d1/back -> root, so d1/back/.. is the directory that holds root)
                                                 R(<<"d1", "back", "..", "root", "a.c">>), R(<<"lnk_d1", "..", "a.c">>)} ELSE {})
                \* the lexical collapse of this spelling (root/d1/d2/a.c) exists and is a different file
                \cup (IF p = R(<<"a.c">>) THEN {R(<<"d1", "d2", "up", "..", "a.c">>)} ELSE {})
                \cup (IF p = <<"B", "outside", "o.c">> THEN {R(<<"lout.c">>), R(<<"lnk_out", "o.c">>)} ELSE {})

\* M: membership does not depend on the spelling; links to outside and dangling links are never members
SpellingIndependent == \A p \in RegFiles : \A s \in Spell(p) : Member(s) = Member(p)
NeverMembers == ~Member(R(<<"lout.c">>)) /\ ~Member(R(<<"dangling.c">>)) /\ ~Member(R(<<"lnk_out", "o.c">>))
                /\ ~Member(<<"B", "root2", "x.c">>) /\ ~Member(R(<<"src.c">>)) /\ ~Member(R(<<"notes.txt">>)) /\ ~Member(R(<<"noext">>))
                /\ ~Member(R(<<".c">>)) /\ ~Member(R(<<"d1", ".h">>))

Txt == [i \in 1..Len(pats) |-> pats[i].txt]
Hash == (Len(pats) * 3 + Cardinality(Members)) % NShards
Emit == /\ ~done /\ done' = TRUE /\ UNCHANGED pats
        /\ (Hash = Shard) =>
             PrintT(ToJson([patterns |-> Txt, members |-> SetToSeq(Members),
                            ignored |-> SetToSeq({p \in RegFiles : Prefix(Root, p) /\ Ignored(pats, Drop(p, Len(Root)))}),
                            spellings |-> [p \in {q \in RegFiles : Cardinality(Spell(q)) > 1} |-> SetToSeq(Spell(p))],
                            \* some file is ignored ONLY because a parent directory is excluded (its own last match re-includes it)
                            parentrule |-> \E p \in RegFiles : Prefix(Root, p) /\ Len(p) > Len(Root) + 1 /\
                                              Ignored(pats, Drop(p, Len(Root))) /\ ~Decide(pats, Drop(p, Len(Root)), FALSE),
                            \* a NEGATED directory-only pattern names an ancestor directory of a file that is ignored
                            negdirrule |-> \E p \in RegFiles : Prefix(Root, p) /\ Len(p) > Len(Root) + 1 /\
                                              LET rel == Drop(p, Len(Root)) IN
                                              Ignored(pats, rel) /\
                                              \E i \in 1..Len(pats) : pats[i].kind = "pat" /\ pats[i].neg /\ pats[i].dironly /\
                                                 \E k \in 1..(Len(rel) - 1) : Matches(pats[i], SubSeq(rel, 1, k), TRUE)]))
Next == Add \/ Emit
Spec == Init /\ [][Next]_vars
==============================================================================
