------------------------------- MODULE FScan -------------------------------
(***************************************************************************)
(* Reference scanner for C17: free-form Fortran source lines, with C       *)
(* preprocessor directives interleaved (what `gfortran -cpp` accepts).     *)
(*                                                                         *)
(* A physical line is COUNTED iff it holds                                 *)
(*   - a preprocessor directive (first non-blank character #), including   *)
(*     its backslash-newline continuation lines,                           *)
(*   - a compiler-directive sentinel comment:  ! letters* $ ...  as the    *)
(*     first thing on the line (e.g. !$omp, !$acc, !dir$),                 *)
(*   - statement text: a non-blank character outside comments other than   *)
(*     a continuation marker &.                                            *)
(* Ordinary ! comments (full-line, trailing, or interleaved in a continued *)
(* statement) and blank lines are not counted.  Inside a character literal *)
(* ('...' or "...", quote doubling allowed, may continue over lines with   *)
(* & ... &) the characters ! & / are ordinary.                             *)
(* Outside the well-formed texts (ok = FALSE): a statement line that holds  *)
(* nothing but continuation markers and comments; a # that is not the first *)
(* non-blank character of its line; quotes inside a directive that spans    *)
(* several lines (the C cleaner's business, see CScan / MC_CLex) - a quote  *)
(* character on a ONE-line directive (#else ! isn't) is ordinary.           *)
(*                                                                         *)
(* The text is a sequence of lines, each a sequence of one-character       *)
(* strings (no newline characters).  ScanF returns                          *)
(*   counted : set of line numbers,  dirs : Seq(set of lines) directive    *)
(*   extents in order,  ok : well-formed (no unterminated literal, every   *)
(*   continuation is continued, directive continuations end).              *)
(***************************************************************************)
EXTENDS Naturals, Sequences, FiniteSets, TLC

IsWs(c) == c \in {" ", "\t"}
IsLetter(c) == c \in {"a", "b", "c", "d", "e", "f", "g", "h", "i", "j", "k", "l", "m", "n", "o", "p", "q", "r", "s", "t", "u",
                      "v", "w", "x", "y", "z",
                      "A", "B", "C", "D", "E", "F", "G", "H", "I", "J", "K", "L", "M", "N", "O", "P", "Q", "R", "S", "T", "U",
                      "V", "W", "X", "Y", "Z"}

RECURSIVE FirstNonWs(_, _)
FirstNonWs(ln, i) == IF i > Len(ln) THEN 0 ELSE IF IsWs(ln[i]) THEN FirstNonWs(ln, i + 1) ELSE i
RECURSIVE LastNonWs(_, _)
LastNonWs(ln, i) == IF i < 1 THEN 0 ELSE IF IsWs(ln[i]) THEN LastNonWs(ln, i - 1) ELSE i

\* ! letters* $  starting at position i
RECURSIVE SentinelFrom(_, _)
SentinelFrom(ln, i) == IF i > Len(ln) THEN FALSE
                       ELSE IF ln[i] = "$" THEN TRUE
                       ELSE IF IsLetter(ln[i]) THEN SentinelFrom(ln, i + 1) ELSE FALSE
IsSentinel(ln, i) == ln[i] = "!" /\ SentinelFrom(ln, i + 1)

\* scan the statement part of one line from position i.
\* q : "" or the quote character of an open literal; text : statement text seen on this line
\* returns [q, text, amp] where amp = the line's statement part ends with a continuation &
RECURSIVE LineR(_, _, _, _, _)
LineR(ln, i, q, text, amp) ==
  IF i > Len(ln) THEN [q |-> q, text |-> text, amp |-> amp]
  ELSE LET c == ln[i] IN
    IF q # "" THEN
       IF c = q THEN LineR(ln, i + 1, "", TRUE, FALSE)
       ELSE IF c = "&" /\ LastNonWs(ln, Len(ln)) = i THEN [q |-> q, text |-> text, amp |-> TRUE]   \* literal continues
       ELSE LineR(ln, i + 1, q, (text \/ ~IsWs(c)), FALSE)
    ELSE IF c = "!" THEN [q |-> "", text |-> text, amp |-> amp]          \* comment to end of line
    ELSE IF c \in {"'", "\""} THEN LineR(ln, i + 1, c, TRUE, FALSE)
    ELSE IF c = "&" THEN LineR(ln, i + 1, "", text, TRUE)
    ELSE IF IsWs(c) THEN LineR(ln, i + 1, "", text, amp)
    ELSE LineR(ln, i + 1, "", TRUE, FALSE)

\* characters of line ln from position i on that belong to set S
HasAny(ln, i, S) == \E k \in i..Len(ln) : ln[k] \in S

\* state over lines: q (open literal), cont (statement continues), dcont (directive continues),
\*                   counted, dirs, curdir, ok
RECURSIVE ScanLines(_, _, _)
ScanLines(lines, k, s) ==
  IF k > Len(lines) THEN s
  ELSE
  LET ln == lines[k]
      f == FirstNonWs(ln, 1)
      endsBs == Len(ln) > 0 /\ ln[Len(ln)] = "\\"
  IN
  IF s.dcont THEN
       \* continuation line of a directive: counted iff it holds anything
       LET cnt == f # 0 /\ ~(f = Len(ln) /\ endsBs) IN
       ScanLines(lines, k + 1, TLCEval([s EXCEPT !.dcont = endsBs,
                    !.ok = s.ok /\ ~HasAny(ln, 1, {"'", "\"", "#"}),
                    !.counted = IF cnt THEN s.counted \cup {k} ELSE s.counted,
                    !.curdir = IF cnt THEN s.curdir \cup {k} ELSE s.curdir,
                    !.dirs = IF endsBs THEN s.dirs ELSE Append(s.dirs, IF cnt THEN s.curdir \cup {k} ELSE s.curdir)]))
  ELSE IF f = 0 THEN ScanLines(lines, k + 1, s)                                    \* blank
  ELSE IF ln[f] = "#" THEN        \* (the preprocessor runs first: also between the pieces of a continued literal)
       \* a preprocessor directive may sit between the lines of a continued statement
       ScanLines(lines, k + 1, TLCEval([s EXCEPT !.dcont = endsBs, !.counted = s.counted \cup {k}, !.curdir = {k},
                    !.ok = s.ok /\ ~HasAny(ln, f + 1, {"#"}) /\ (endsBs => ~HasAny(ln, f + 1, {"'", "\""})),
                    !.dirs = IF endsBs THEN s.dirs ELSE Append(s.dirs, {k})]))
  ELSE IF (s.q = "" \/ s.cont) /\ IsSentinel(ln, f) THEN
       \* (also between the lines of a continued statement - the OpenMP conditional-compilation idiom:
       \*  the line is counted, the statement goes on)
       ScanLines(lines, k + 1, TLCEval([s EXCEPT !.counted = s.counted \cup {k}]))
  \* ordinary comment line; comment lines may also stand between the lines of a continued
  \* statement, even while a character literal is being continued
  ELSE IF (s.q = "" \/ s.cont) /\ ln[f] = "!" THEN ScanLines(lines, k + 1, s)
  ELSE
  LET start == IF s.cont /\ ln[f] = "&" THEN f + 1 ELSE f          \* optional leading & of a continuation
      r == LineR(ln, start, s.q, FALSE, FALSE)
      bad == (s.q # "" /\ ~(s.cont /\ ln[f] = "&"))                \* a continued literal needs the leading &
  IN ScanLines(lines, k + 1, TLCEval([s EXCEPT !.q = r.q, !.cont = r.amp,
                    !.counted = IF r.text THEN s.counted \cup {k} ELSE s.counted,
                    !.ok = s.ok /\ ~bad /\ (r.q = "" \/ r.amp) /\ r.text /\ ~HasAny(ln, f, {"#"})]))

ScanF(lines) ==
  LET s == ScanLines(lines, 1, [q |-> "", cont |-> FALSE, dcont |-> FALSE, counted |-> {}, dirs |-> <<>>,
                                curdir |-> {}, ok |-> TRUE])
  IN [counted |-> s.counted, dirs |-> s.dirs, ok |-> s.ok /\ s.q = "" /\ ~s.cont /\ ~s.dcont]
============================================================================
