SPECIFICATION Spec
INVARIANT NoMismatch
INVARIANT RefConsistent
VIEW View
CHECK_DEADLOCK FALSE
