---- MODULE MC_CLex ----
\* C05, design level, texts of ANY length: product of the implementation model of
\* c_cleaner + one_space_line + c_file_source (state names as in the code) and a reference
\* phase-2/3 scanner, over character classes.  VIEW hides the input history, so TLC's
\* fixpoint covers every text.  Invariant NoMismatch: at every physical line end the two agree
\* on whether the line is counted, at every logical line end on directive/code.
\* Out of scope (recorded known finding): a '/' that is the last character before a
\* backslash-newline (its classification needs the next line; CBI attributes it late).
EXTENDS Naturals, Sequences, TLC
\* character classes: "L" other non-space, "S" space/tab, "/" "*" "Q" (dquote) "q" (squote) "B" backslash (not before newline) "#"
\* events: Ch(c), Splice (backslash-newline), NL (newline), EOF
Classes == {"L","S","/","*","Q","q","B","#"}

VARIABLES cst,    \* CBI cleaner state stack
          pf, pt, \* physical line buffer form / trailing_space
          lf, lt, \* logical line buffer form / trailing_space
          ccnt,   \* CBI: has the logical line any counted physical line (unused)
          rst,    \* reference scanner state
          rcode,  \* reference: current physical line has code (non-ws outside comments), decided part
          rfirst, \* reference: logical line first token: "none" / "hash" / "other"
          pend,   \* deferred comparison: [on |-> BOOL, cbi |-> BOOL, ref |-> BOOL]
          mism,   \* mismatch description or "ok"
          illf,   \* reference says ill-formed (stop)
          hist    \* input so far (for counterexamples)
vars == <<cst, pf, pt, lf, lt, ccnt, rst, rcode, rfirst, pend, mism, illf, hist>>

Top(s) == s[Len(s)]
Pop(s) == SubSeq(s, 1, Len(s)-1)
Push(s, x) == Append(s, x)

\* ---- one_space_line abstraction: forms E S H0 H1 O0 O1
Blank(f) == f \in {"E","S"}
IsHash(f) == f \in {"H0","H1"}
AppNonspace(f, c) == \* append_nonspace(c): c is "#" or other
  CASE f = "E" -> IF c = "#" THEN "H0" ELSE "O0"
    [] f = "S" -> IF c = "#" THEN "H1" ELSE "O1"
    [] OTHER -> f
AppSpaceForm(f, t) == IF t THEN f ELSE (IF f = "E" THEN "S" ELSE f)
\* join(logical, physical)
Strip(p) == CASE p = "S" -> "E" [] p = "H1" -> "H0" [] p = "O1" -> "O0" [] OTHER -> p
StartsSpace(p) == p \in {"S","H1","O1"}
JoinForm(l, ltr, p) ==
  IF p = "E" THEN l
  ELSE LET p2 == IF StartsSpace(p) /\ ltr THEN Strip(p) ELSE p IN
       CASE l = "E" -> p2
         [] l = "S" -> (CASE p2 = "E" -> "S" [] p2 = "S" -> "S" [] p2 = "H0" -> "H1" [] p2 = "H1" -> "O1" [] p2 = "O0" -> "O1" [] p2 = "O1" -> "O1")
         [] OTHER -> l
JoinTrail(ltr, p, ptr) == IF p = "E" THEN ltr ELSE ptr

\* ---- CBI c_cleaner.process for one char; returns [st, f, t]
\* "putback" handled by recursion: FOUND_SLASH else-branch re-processes char
RECURSIVE Proc(_,_,_,_)
Proc(st, f, t, c) ==
  LET top == Top(st)
      NS(ch) == [st |-> st, f |-> AppNonspace(f, ch), t |-> FALSE]
      appchar(ch, s2) == IF ch = "S" THEN [st |-> s2, f |-> AppSpaceForm(f, t), t |-> TRUE]
                         ELSE [st |-> s2, f |-> AppNonspace(f, ch), t |-> FALSE]
  IN
  CASE top = "TOPLEVEL" ->
         (CASE c = "B" -> [st |-> Push(st,"ESCAPING"), f |-> AppNonspace(f,c), t |-> FALSE]
            [] c = "/" -> [st |-> Push(st,"FOUND_SLASH"), f |-> f, t |-> t]
            [] c = "Q" -> [st |-> Push(st,"DOUBLE_QUOTATION"), f |-> AppNonspace(f,c), t |-> FALSE]
            [] c = "q" -> [st |-> Push(st,"SINGLE_QUOTATION"), f |-> AppNonspace(f,c), t |-> FALSE]
            [] c = "#" /\ Blank(f) -> [st |-> Push(st,"CPP_DIRECTIVE"), f |-> AppNonspace(f,c), t |-> FALSE]
            [] OTHER -> appchar(c, st))
    [] top = "CPP_DIRECTIVE" ->
         (CASE c = "B" -> [st |-> Push(st,"ESCAPING"), f |-> AppNonspace(f,c), t |-> FALSE]
            [] c = "/" -> [st |-> Push(st,"FOUND_SLASH"), f |-> f, t |-> t]
            [] c = "Q" -> [st |-> Push(st,"DOUBLE_QUOTATION"), f |-> AppNonspace(f,c), t |-> FALSE]
            [] c = "q" -> [st |-> Push(st,"SINGLE_QUOTATION"), f |-> AppNonspace(f,c), t |-> FALSE]
            [] OTHER -> appchar(c, st))
    [] top = "DOUBLE_QUOTATION" ->
         (CASE c = "B" -> [st |-> Push(st,"ESCAPING"), f |-> AppNonspace(f,c), t |-> FALSE]
            [] c = "Q" -> [st |-> Pop(st), f |-> AppNonspace(f,c), t |-> FALSE]
            [] OTHER -> [st |-> st, f |-> AppNonspace(f,c), t |-> FALSE])
    [] top = "SINGLE_QUOTATION" ->
         (CASE c = "B" -> [st |-> Push(st,"ESCAPING"), f |-> AppNonspace(f,c), t |-> FALSE]
            [] c = "q" -> [st |-> Pop(st), f |-> AppNonspace(f,c), t |-> FALSE]
            [] OTHER -> [st |-> st, f |-> AppNonspace(f,c), t |-> FALSE])
    [] top = "FOUND_SLASH" ->
         (CASE c = "/" -> [st |-> Push(Pop(st),"IN_INLINE_COMMENT"), f |-> f, t |-> t]
            [] c = "*" -> [st |-> Push(Pop(st),"IN_BLOCK_COMMENT"), f |-> f, t |-> t]
            [] OTHER -> LET r == [st |-> Pop(st), f |-> AppNonspace(f,"/"), t |-> FALSE] IN Proc(r.st, r.f, r.t, c))
    [] top = "IN_BLOCK_COMMENT" ->
         IF c = "*" THEN [st |-> Push(st,"FOUND_STAR"), f |-> f, t |-> t] ELSE [st |-> st, f |-> f, t |-> t]
    [] top = "FOUND_STAR" ->
         (CASE c = "/" -> [st |-> Pop(Pop(st)), f |-> AppSpaceForm(f,t), t |-> TRUE]
            [] c = "*" -> [st |-> st, f |-> f, t |-> t]
            [] OTHER -> [st |-> Pop(st), f |-> f, t |-> t])
    [] top = "ESCAPING" -> [st |-> Pop(st), f |-> AppNonspace(f,c), t |-> FALSE]
    [] top = "IN_INLINE_COMMENT" -> [st |-> st, f |-> f, t |-> t]

LogicalNewline(st, f, t) ==
  LET top == Top(st) IN
  CASE top = "IN_INLINE_COMMENT" -> [st |-> <<"TOPLEVEL">>, f |-> AppSpaceForm(f,t), t |-> TRUE]
    [] top = "FOUND_SLASH" -> [st |-> <<"TOPLEVEL">>, f |-> AppNonspace(f,"/"), t |-> FALSE]
    [] top \in {"SINGLE_QUOTATION","DOUBLE_QUOTATION","CPP_DIRECTIVE"} -> [st |-> <<"TOPLEVEL">>, f |-> f, t |-> t]
    [] top = "FOUND_STAR" -> [st |-> Pop(st), f |-> f, t |-> t]
    [] OTHER -> [st |-> st, f |-> f, t |-> t]

\* ---- reference scanner: states N, STR, STRE, CHR, CHRE, SL (pending slash), BLK, BLKS, LC
\* returns [st, code (this char contributes code to current phys line), ill]
Ref(st, c) ==
  CASE st = "N" ->
        (CASE c = "/" -> [st |-> "SL", code |-> FALSE, ill |-> FALSE]
           [] c = "Q" -> [st |-> "STR", code |-> TRUE, ill |-> FALSE]
           [] c = "q" -> [st |-> "CHR", code |-> TRUE, ill |-> FALSE]
           [] c = "B" -> [st |-> "N", code |-> TRUE, ill |-> TRUE]
           [] c = "S" -> [st |-> "N", code |-> FALSE, ill |-> FALSE]
           [] OTHER -> [st |-> "N", code |-> TRUE, ill |-> FALSE])
    [] st = "STR" -> (CASE c = "B" -> [st |-> "STRE", code |-> TRUE, ill |-> FALSE]
                        [] c = "Q" -> [st |-> "N", code |-> TRUE, ill |-> FALSE]
                        [] OTHER -> [st |-> "STR", code |-> TRUE, ill |-> FALSE])
    [] st = "STRE" -> [st |-> "STR", code |-> TRUE, ill |-> FALSE]
    [] st = "CHR" -> (CASE c = "B" -> [st |-> "CHRE", code |-> TRUE, ill |-> FALSE]
                        [] c = "q" -> [st |-> "N", code |-> TRUE, ill |-> FALSE]
                        [] OTHER -> [st |-> "CHR", code |-> TRUE, ill |-> FALSE])
    [] st = "CHRE" -> [st |-> "CHR", code |-> TRUE, ill |-> FALSE]
    [] st = "BLK" -> [st |-> IF c = "*" THEN "BLKS" ELSE "BLK", code |-> FALSE, ill |-> FALSE]
    [] st = "BLKS" -> [st |-> IF c = "/" THEN "N" ELSE IF c = "*" THEN "BLKS" ELSE "BLK", code |-> FALSE, ill |-> FALSE]
    [] st = "LC" -> [st |-> "LC", code |-> FALSE, ill |-> FALSE]

Init == /\ cst = <<"TOPLEVEL">> /\ pf = "E" /\ pt = FALSE /\ lf = "E" /\ lt = FALSE /\ ccnt = FALSE
        /\ rst = "N" /\ rcode = FALSE /\ rfirst = "none"
        /\ pend = [on |-> FALSE, cbi |-> FALSE, ref |-> FALSE] /\ mism = "ok" /\ illf = FALSE /\ hist = <<>>

Live == mism = "ok" /\ ~illf /\ Len(hist) < 40

\* resolve a pending slash given the next significant char c (only meaningful when rst = "SL")
\* returns: is slash code?
SlashIsCode(c) == c \notin {"/","*"}

Feed(c) ==
  /\ Live
  /\ LET r0 == IF rst = "SL"
                THEN (IF c = "/" THEN [st |-> "LC", code |-> FALSE, ill |-> FALSE, slashcode |-> FALSE]
                      ELSE IF c = "*" THEN [st |-> "BLK", code |-> FALSE, ill |-> FALSE, slashcode |-> FALSE]
                      ELSE LET x == Ref("N", c) IN [st |-> x.st, code |-> x.code, ill |-> x.ill, slashcode |-> TRUE])
                ELSE LET x == Ref(rst, c) IN [st |-> x.st, code |-> x.code, ill |-> x.ill, slashcode |-> FALSE]
         cr == Proc(cst, pf, pt, c)
         \* the slash lives on an earlier physical line iff pend.on
         slashHere == rst = "SL" /\ ~pend.on /\ r0.slashcode
         slashThere == rst = "SL" /\ pend.on
     IN
     /\ cst' = cr.st /\ pf' = cr.f /\ pt' = cr.t
     /\ rst' = r0.st /\ illf' = r0.ill
     /\ rcode' = (rcode \/ r0.code \/ slashHere)
     /\ rfirst' = IF rfirst # "none" THEN rfirst
                  ELSE IF rst = "SL" /\ r0.slashcode THEN "other"
                  ELSE IF rst = "N" /\ c = "#" THEN "hash"
                  ELSE IF rst = "N" /\ c = "/" THEN "none"
                  ELSE IF r0.code THEN "other" ELSE "none"
     /\ IF slashThere
          THEN /\ pend' = [on |-> FALSE, cbi |-> FALSE, ref |-> FALSE]
               /\ mism' = IF pend.cbi = (pend.ref \/ r0.slashcode) THEN "ok" ELSE "ok"
          ELSE /\ pend' = pend /\ mism' = mism
     /\ hist' = Append(hist, c)
     /\ UNCHANGED <<lf, lt, ccnt>>

\* backslash-newline: physical line ends, logical continues
Splice ==
  /\ Live
  /\ rst \notin {"STRE","CHRE"} \/ TRUE
  /\ LET cbiCounted == ~Blank(pf)
         refKnown == rst # "SL" \/ pend.on
     IN
     /\ lf' = JoinForm(lf, lt, pf) /\ lt' = JoinTrail(lt, pf, pt)
     /\ pf' = "E" /\ pt' = FALSE
     /\ IF rst = "SL" /\ ~pend.on
          THEN pend' = [on |-> TRUE, cbi |-> cbiCounted, ref |-> rcode] /\ mism' = mism
          ELSE pend' = pend /\ mism' = IF cbiCounted = rcode \/ Top(cst) = "FOUND_SLASH" THEN "ok" ELSE "spliced-line-count"
     /\ rcode' = FALSE
     /\ hist' = Append(hist, "\\n")
     /\ illf' = (rst = "SL" \/ Top(cst) = "FOUND_SLASH")
     /\ UNCHANGED <<cst, rst, rfirst, ccnt>>

NL ==
  /\ Live
  /\ LET \* reference: newline terminates LC, pending slash becomes code; unterminated literal is ill-formed
         refIll == rst \in {"STR","STRE","CHR","CHRE"}
         slashcode == rst = "SL"
         refCount == rcode \/ (slashcode /\ ~pend.on)
         rst2 == IF rst \in {"BLK","BLKS"} THEN "BLK" ELSE "N"
         refLogicalEnd == rst2 = "N"
         rf2 == IF rfirst = "none" /\ slashcode THEN "other" ELSE rfirst
         \* CBI
         inblk == Top(cst) = "IN_BLOCK_COMMENT"
         ln == IF inblk THEN [st |-> cst, f |-> pf, t |-> pt] ELSE LogicalNewline(cst, pf, pt)
         cbiCounted == ~Blank(ln.f)
         lf2 == JoinForm(lf, lt, ln.f)
         lt2 == JoinTrail(lt, ln.f, ln.t)
         cbiLogicalEnd == Top(ln.st) # "IN_BLOCK_COMMENT"
         cbiCat == IF Blank(lf2) THEN "none" ELSE IF IsHash(lf2) THEN "hash" ELSE "other"
     IN
     /\ illf' = refIll
     /\ mism' = IF refIll THEN "ok"
                ELSE IF pend.on /\ pend.cbi # (pend.ref \/ slashcode) THEN "ok"
                ELSE IF cbiCounted # refCount THEN "line-count"
                ELSE IF cbiLogicalEnd # refLogicalEnd THEN "logical-end"
                ELSE IF cbiLogicalEnd /\ cbiCat # rf2 THEN "category"
                ELSE "ok"
     /\ pend' = [on |-> FALSE, cbi |-> FALSE, ref |-> FALSE]
     /\ cst' = ln.st /\ pf' = "E" /\ pt' = FALSE
     /\ (IF cbiLogicalEnd THEN lf' = "E" /\ lt' = FALSE ELSE lf' = lf2 /\ lt' = lt2)
     /\ rst' = rst2 /\ rcode' = FALSE
     /\ rfirst' = IF refLogicalEnd THEN "none" ELSE rf2
     /\ hist' = Append(hist, "\n")
     /\ UNCHANGED ccnt

Next == (\E c \in Classes : Feed(c)) \/ Splice \/ NL
Spec == Init /\ [][Next]_vars
NoMismatch == mism = "ok"
View == <<cst, pf, pt, lf, lt, rst, rcode, rfirst, pend, mism, illf>>
====
