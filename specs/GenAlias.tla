----------------------------- MODULE GenAlias -----------------------------
(***************************************************************************)
(* Generator + design check for C15: behaviours choose a set of symbolic   *)
(* links (to files, to directories, to a parent, to a directory outside    *)
(* the code base, nested) over the canonical tree used by GenScen, and the *)
(* spec derives for every canonical target the alias SPELLINGS that reach  *)
(* it (through links, with "." segments, with "dir/.." detours through     *)
(* real directories and through directory links).                          *)
(* Invariant AliasesResolve: every spelling resolves (realpath semantics,  *)
(* FileSys.Resolve) to its canonical target - this is what makes "the one  *)
(* physical file" well defined.  Emit prints links and spellings; the      *)
(* harness uses them in compile commands, -I options and code-base         *)
(* enumeration and compares with the canonical twin.                       *)
(***************************************************************************)
EXTENDS Naturals, Sequences, FiniteSets, TLC, Json, SequencesExt, FileSys

CONSTANTS Shard, NShards

Root == <<"B", "root">>
Ext == <<"B", "root_old", "ext">>   \* outside the code base, in a sibling directory whose NAME has the root's name as a prefix
D(n) == Append(Root, n)
LinkCat == [
  l_inc  |-> [lp |-> D("lnk_inc"), tp |-> D("inc")],                       \* dir link beside its target
  l_up   |-> [lp |-> Root \o <<"src", "up">>, tp |-> Root],               \* dir link to an ancestor
  l_m1   |-> [lp |-> D("alias_m1.c"), tp |-> Root \o <<"src", "m1.c">>],  \* file link at the root
  l_m2   |-> [lp |-> Root \o <<"inc", "alias_m2.c">>, tp |-> Root \o <<"src", "m2.c">>], \* file link below the root
  l_ext  |-> [lp |-> D("extlink"), tp |-> Ext],                           \* dir link to outside the code base
  l_cur  |-> [lp |-> Root \o <<"deep", "cur">>, tp |-> D("src")],         \* dir link whose parent differs from its target's
  l_sys  |-> [lp |-> D("sysalias"), tp |-> Root \o <<"sys", "include">>],
  l_nest |-> [lp |-> D("nest"), tp |-> D("lnk_inc")],                     \* link to a link (needs l_inc)
  \* a link INSIDE inc to a subdirectory of src: "inc/tosub/.." is physically src but lexically inc, so
  \* inc/tosub/../m1.c names src/m1.c although a different file inc/m1.c may exist
  l_sub  |-> [lp |-> Root \o <<"inc", "tosub">>, tp |-> Root \o <<"src", "sub">>]
]
LinkNames == DOMAIN LinkCat

Targets == [m1 |-> Root \o <<"src", "m1.c">>, m2 |-> Root \o <<"src", "m2.c">>, inc |-> D("inc"),
            sys |-> Root \o <<"sys", "include">>, bld |-> D("build"), ext |-> Ext, src |-> D("src"), root |-> Root]
RealSubdirs == [p \in {Root, D("src"), D("inc"), D("sys")} |->
                  CASE p = Root -> {"src", "inc", "sys", "build", "deep"} [] p = D("sys") -> {"include"} [] p = D("src") -> {"sub"} [] OTHER -> {}]

VARIABLES chosen, done
vars == <<chosen, done>>
Init == chosen = {} /\ done = FALSE
Choose == /\ ~done /\ \E l \in LinkNames \ chosen :
               /\ (l = "l_nest" => "l_inc" \in chosen)
               /\ chosen' = chosen \cup {l}
          /\ UNCHANGED done
Links == [lp \in {LinkCat[l].lp : l \in chosen} |-> LinkCat[CHOOSE l \in chosen : LinkCat[l].lp = lp].tp]

\* spellings of canonical path P
ViaLink(S) == S \cup {LinkCat[l].lp \o Drop(s, Len(LinkCat[l].tp)) : l \in chosen, s \in {x \in S : TRUE}} 
PrefixRewrite(S) ==
  S \cup UNION {{LinkCat[l].lp \o Drop(s, Len(LinkCat[l].tp)) : s \in {x \in S : Prefix(LinkCat[l].tp, x)}} : l \in chosen}
\* detour through a directory link and back up: valid for the PHYSICAL parent of the link's target
DotDotViaLink(P) ==
  UNION {{LinkCat[l].lp \o <<"..">> \o Drop(P, Len(Parent(LinkCat[l].tp)))} : l \in {k \in chosen :
              LinkCat[k].tp \in ({Targets[t] : t \in {"inc", "sys", "src", "ext"}} \cup {Root \o <<"src", "sub">>})
              /\ Prefix(Parent(LinkCat[k].tp), P)}}
Dots(S) == S \cup {SubSeq(s, 1, Len(Root)) \o <<".">> \o Drop(s, Len(Root)) : s \in {x \in S : Prefix(Root, x)}}
UpDown(S) == S \cup UNION {{SubSeq(s, 1, Len(Root)) \o <<d, "..">> \o Drop(s, Len(Root)) : d \in RealSubdirs[Root]} :
                               s \in {x \in S : Prefix(Root, x)}}
Spellings(P) == UpDown(Dots(PrefixRewrite(PrefixRewrite({P}) \cup DotDotViaLink(P))))

AliasesResolve == \A t \in DOMAIN Targets : \A s \in Spellings(Targets[t]) : Resolve(Links, s) = Targets[t]
\* resolution is idempotent and never loops on these trees
ResolveIdempotent == \A t \in DOMAIN Targets : Resolve(Links, Resolve(Links, Targets[t])) = Targets[t]
\* lexical normalisation is NOT a substitute: it disagrees exactly on spellings with a link before ".."
NormUnsound == \E t \in DOMAIN Targets : \E s \in Spellings(Targets[t]) : Norm(s) # Resolve(Links, s)

Hash == (Cardinality(chosen) * 3 + Cardinality(chosen \cap {"l_inc", "l_cur", "l_ext"})) % NShards
Emit == /\ ~done /\ done' = TRUE /\ UNCHANGED chosen
        /\ (Hash = Shard) =>
             PrintT(ToJson([links |-> [l \in chosen |-> LinkCat[l]],
                            spell |-> [t \in DOMAIN Targets |-> SetToSeq(Spellings(Targets[t]))]]))
Next == Choose \/ Emit
Spec == Init /\ [][Next]_vars
===========================================================================
