------------------------------ MODULE GenCLex ------------------------------
(***************************************************************************)
(* Generator for C05: behaviours build a source text one piece at a time.  *)
(* Profile "chars": pieces are the single characters of the lexically      *)
(* significant alphabet, so BFS enumerates EVERY text up to MaxLen pieces.  *)
(* Profile "toks": pieces are token-level fragments (identifiers, string   *)
(* and character literals containing comment markers, block and line       *)
(* comments containing quotes, directives, splices, blanks), for long      *)
(* simulated texts.  A final newline is added; Emit prints the text and    *)
(* what the reference scanner (CScan) says about it.                       *)
(***************************************************************************)
EXTENDS Naturals, Sequences, FiniteSets, TLC, Json, CScan

CONSTANTS Profile, MaxLen, Shard, NShards

S(str) == [i \in 1..Len(str) |-> SubSeq(str, i, i)]

Pieces == IF Profile = "chars"
          THEN {<<"a">>, <<"1">>, <<" ">>, <<"\n">>, <<"/">>, <<"*">>, <<"\"">>, <<"'">>, <<"\\">>, <<"#">>}
          ELSE {S("x"), S(" "), S("\n"), S("\\\n"), S("/"), S("*"), S("#define X"), S("#if 1"), S("#endif"), S("# "),
                S("\"s\""), S("\"/*\""), S("\"//\""), S("\"a\\\"b\""), S("'a'"), S("'\"'"), S("'\\''"), S("'/'"),
                S("/* c */"), S("/* \" */"), S("/* ' */"), S("/*"), S("*/"), S("// c"), S("// \""), S("//"),
                S("/**/"), S("/* // */"), S("\t"), S("a/b"), S("a / b")}

VARIABLES text, n, done
vars == <<text, n, done>>
Init == text = <<>> /\ n = 0 /\ done = FALSE
Add == /\ ~done /\ n < MaxLen
       /\ \E p \in Pieces : text' = text \o p
       /\ n' = n + 1 /\ UNCHANGED done

Full == text \o <<"\n">>
Hash == (Len(text) * 7 + Cardinality({i \in 1..Len(text) : text[i] \in {"/", "\"", "#", "\n"}}) * 3
         + Cardinality({i \in 1..Len(text) : text[i] \in {"*", "'", " "}})) % NShards

RECURSIVE Join(_)
Join(t) == IF t = <<>> THEN "" ELSE t[1] \o Join(Tail(t))

\* the conditional directives of the text are properly nested (otherwise it is not a program)
RECURSIVE BalancedR(_, _, _)
BalancedR(lg, i, depth) ==
  IF i > Len(lg) THEN depth = 0
  ELSE IF lg[i].cat # "dir" THEN BalancedR(lg, i + 1, depth)
  ELSE IF lg[i].kw \in {"if", "ifdef", "ifndef"} THEN BalancedR(lg, i + 1, depth + 1)
  ELSE IF lg[i].kw \in {"elif", "else"} THEN depth > 0 /\ BalancedR(lg, i + 1, depth)
  ELSE IF lg[i].kw = "endif" THEN depth > 0 /\ BalancedR(lg, i + 1, depth - 1)
  ELSE BalancedR(lg, i + 1, depth)
Balanced(r) == BalancedR(r.logical, 1, 0)

Emit == /\ ~done /\ n > 0 /\ done' = TRUE /\ UNCHANGED <<text, n>>
        /\ (Hash = Shard) =>
             LET r == Scan(Full) IN
             (r.ok /\ Balanced(r)) => PrintT(ToJson([text |-> Join(Full), counted |-> r.counted,
                                    logical |-> [i \in 1..Len(r.logical) |->
                                                   [cat |-> r.logical[i].cat, lines |-> r.logical[i].lines]]]))
Next == Add \/ Emit
Spec == Init /\ [][Next]_vars

\* M: sanity of the reference on every generated text: counted lines are inside the file, every
\* counted line belongs to exactly one logical line, logical lines are in increasing order
NumLines(t) == Cardinality({i \in 1..Len(t) : t[i] = "\n"})
RefSane ==
  (~done /\ n > 0) =>
     LET r == Scan(Full) IN
     r.ok =>
       /\ \A l \in r.counted : l >= 1 /\ l <= NumLines(Full)
       /\ r.counted = UNION {r.logical[i].lines : i \in 1..Len(r.logical)}
       /\ \A i, j \in 1..Len(r.logical) : i < j =>
             \A a \in r.logical[i].lines, b \in r.logical[j].lines : a < b
============================================================================
