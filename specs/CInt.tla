------------------------------- MODULE CInt -------------------------------
(***************************************************************************)
(* 64-bit C integer arithmetic (intmax_t / uintmax_t) for the preprocessor, *)
(* on little-endian sequences of NL limbs of 8 bits, because TLC's own      *)
(* integers are 32-bit.  A value is [v |-> limbs, u |-> is unsigned].       *)
(* NL is a parameter so that the same operators can be cross-checked        *)
(* against TLC's native arithmetic at small widths (MC_CInt).               *)
(***************************************************************************)
EXTENDS Naturals, Sequences, Bitwise, TLC

CONSTANT NL            \* number of 8-bit limbs (8 for the real thing)
B == 256
Idx == 1..NL

Z == [i \in Idx |-> 0]
One == [i \in Idx |-> IF i = 1 THEN 1 ELSE 0]
AllOnes == [i \in Idx |-> 255]
\* n < 2^31
FromNat(n) == [i \in Idx |-> IF i = 1 THEN n % B ELSE IF i = 2 THEN (n \div 256) % B
                              ELSE IF i = 3 THEN (n \div 65536) % B ELSE IF i = 4 THEN (n \div 16777216) % B ELSE 0]

IsZero(a) == \A i \in Idx : a[i] = 0
Sign(a) == a[NL] >= 128

RECURSIVE AddR(_, _, _, _)
AddR(a, b, i, c) == IF i > NL THEN <<>>
                    ELSE LET s == a[i] + b[i] + c IN <<s % B>> \o AddR(a, b, i + 1, s \div B)
Add(a, b) == AddR(a, b, 1, 0)
NotL(a) == [i \in Idx |-> 255 - a[i]]
Neg(a) == Add(NotL(a), One)
Sub(a, b) == Add(a, Neg(b))

RECURSIVE ColR(_, _, _, _)
ColR(a, b, k, i) == IF i > k THEN 0
                    ELSE (IF i <= NL /\ k + 1 - i <= NL /\ k + 1 - i >= 1 THEN a[i] * b[k + 1 - i] ELSE 0)
                         + ColR(a, b, k, i + 1)
RECURSIVE MulR(_, _, _, _, _)
MulR(a, b, k, c, n) == IF k > n THEN <<>>
                       ELSE LET s == ColR(a, b, k, 1) + c IN <<s % B>> \o MulR(a, b, k + 1, s \div B, n)
Mul(a, b) == MulR(a, b, 1, 0, NL)              \* truncated to NL limbs
MulFull(a, b) == MulR(a, b, 1, 0, 2 * NL)      \* 2*NL limbs

\* unsigned comparison, most significant limb first
RECURSIVE LtUR(_, _, _)
LtUR(a, b, i) == IF i = 0 THEN FALSE ELSE IF a[i] # b[i] THEN a[i] < b[i] ELSE LtUR(a, b, i - 1)
LtU(a, b) == LtUR(a, b, NL)
LtS(a, b) == IF Sign(a) # Sign(b) THEN Sign(a) ELSE LtU(a, b)

AndL(a, b) == [i \in Idx |-> a[i] & b[i]]
OrL(a, b) == [i \in Idx |-> a[i] | b[i]]
XorL(a, b) == [i \in Idx |-> a[i] ^^ b[i]]

Pow2(r) == CASE r = 0 -> 1 [] r = 1 -> 2 [] r = 2 -> 4 [] r = 3 -> 8 [] r = 4 -> 16 [] r = 5 -> 32
             [] r = 6 -> 64 [] r = 7 -> 128 [] r = 8 -> 256
\* 0 <= n < 8*NL
Shl(a, n) == LET q == n \div 8 r == n % 8 IN
  [i \in Idx |-> ((IF i - q >= 1 THEN (a[i - q] * Pow2(r)) % B ELSE 0)
                  + (IF i - q - 1 >= 1 THEN a[i - q - 1] \div Pow2(8 - r) ELSE 0)) % B]
ShrFill(a, n, fill) == LET q == n \div 8 r == n % 8
                           at(j) == IF j <= NL THEN a[j] ELSE fill IN
  [i \in Idx |-> ((at(i + q) \div Pow2(r)) + ((at(i + q + 1) * Pow2(8 - r)) % B)) % B]
ShrU(a, n) == ShrFill(a, n, 0)
ShrS(a, n) == ShrFill(a, n, IF Sign(a) THEN 255 ELSE 0)      \* arithmetic shift (what gcc does)

\* small natural value of a limb sequence known to be < 2^31 (for shift counts)
Small(a) == a[1] + 256 * (IF NL >= 2 THEN a[2] ELSE 0)
IsSmall(a, lim) == (\A i \in Idx : i > 2 => a[i] = 0) /\ Small(a) < lim

\* bit k (0-based) of a
Bit(a, k) == (a[(k \div 8) + 1] \div Pow2(k % 8)) % 2

\* unsigned long division, one bit at a time; b # 0.  Returns [q, r]
RECURSIVE DivR(_, _, _, _, _)
DivR(a, b, k, q, r) ==
  IF k < 0 THEN [q |-> q, r |-> r]
  ELSE LET r1 == TLCEval(Add(Shl(r, 1), IF Bit(a, k) = 1 THEN One ELSE Z))
           ge == TLCEval(~LtU(r1, b))
       \* TLCEval forces the accumulators (TLC would otherwise re-evaluate the lazy argument
       \* expressions at every use, which is exponential in the 64 iterations)
       IN DivR(a, b, k - 1, TLCEval(IF ge THEN Add(Shl(q, 1), One) ELSE Shl(q, 1)), TLCEval(IF ge THEN Sub(r1, b) ELSE r1))
DivModU(a, b) == DivR(a, b, 8 * NL - 1, Z, Z)

Abs(a) == IF Sign(a) THEN Neg(a) ELSE a
IntMin == [i \in Idx |-> IF i = NL THEN 128 ELSE 0]
\* signed division truncating toward zero; b # 0 and not (a = IntMin /\ b = -1)
DivS(a, b) == LET d == DivModU(Abs(a), Abs(b)) IN IF Sign(a) # Sign(b) THEN Neg(d.q) ELSE d.q
ModS(a, b) == LET d == DivModU(Abs(a), Abs(b)) IN IF Sign(a) THEN Neg(d.r) ELSE d.r

\* ---- overflow predicates for signed arithmetic (undefined behaviour in C) -------------
AddOvf(a, b) == Sign(a) = Sign(b) /\ Sign(Add(a, b)) # Sign(a)
SubOvf(a, b) == Sign(a) # Sign(b) /\ Sign(Sub(a, b)) # Sign(a)
MulOvf(a, b) ==
  LET f == MulFull(Abs(a), Abs(b))
      hiZero == \A i \in (NL + 1)..(2 * NL) : f[i] = 0
      lo == [i \in Idx |-> f[i]]
      neg == Sign(a) # Sign(b)
  IN ~hiZero \/ (IF neg THEN (Sign(lo) /\ lo # IntMin) ELSE Sign(lo))
NegOvf(a) == a = IntMin
ShlOvf(a, n) == Sign(a) \/ ShrU(Shl(a, n), n) # a \/ Sign(Shl(a, n))

\* Horner: value of a digit string in a base (digits most significant first); also reports
\* whether the value exceeded the limbs
RECURSIVE FromDigitsR(_, _, _, _, _)
FromDigitsR(base, ds, i, acc, ovf) ==
  IF i > Len(ds) THEN [v |-> acc, ovf |-> ovf]
  ELSE LET f == TLCEval(MulFull(acc, FromNat(base)))
           lo == TLCEval([j \in Idx |-> f[j]])
           s == TLCEval(Add(lo, FromNat(ds[i])))
       IN FromDigitsR(base, ds, i + 1, TLCEval(s), TLCEval(ovf \/ (\E j \in (NL + 1)..(2 * NL) : f[j] # 0) \/ LtU(s, lo)))
FromDigits(base, ds) == FromDigitsR(base, ds, 1, Z, FALSE)

\* decimal digits of an unsigned limb value (for printing expected values)
RECURSIVE ToDecR(_, _)
ToDecR(a, acc) == IF IsZero(a) THEN acc
                  ELSE LET d == TLCEval(DivModU(a, FromNat(10))) IN ToDecR(TLCEval(d.q), TLCEval(<<d.r[1]>> \o acc))
ToDec(a) == IF IsZero(a) THEN <<0>> ELSE ToDecR(a, <<>>)
===========================================================================
