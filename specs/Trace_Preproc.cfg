SPECIFICATION Spec
INVARIANT TypeOK
PROPERTY AttrMonotone
CHECK_DEADLOCK FALSE
