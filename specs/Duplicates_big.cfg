SPECIFICATION BigSpec
CONSTANTS
  N = 48
  Pool = {"x"}
  Kinds = {"reg"}
  Hashes = {1}
  Shard = 0
  NShards = 1
CHECK_DEADLOCK FALSE
