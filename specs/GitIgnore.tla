----------------------------- MODULE GitIgnore -----------------------------
(***************************************************************************)
(* C09: git's .gitignore semantics on structured patterns.                 *)
(*   Pattern = [kind |-> "pat" | "comment" | "blank", neg, anchored,       *)
(*              dironly, segs : Seq(Seg), txt : the spelling]              *)
(*   Seg     = <<"**">>  or a glob: Seq(Atom)                              *)
(*   Atom    = [t |-> "c", c] | [t |-> "star"] | [t |-> "q"]               *)
(*             | [t |-> "cls", set, neg]                                   *)
(* A path is a sequence of components relative to the directory holding    *)
(* the patterns.  Rules (gitignore(5)):                                    *)
(*  - a pattern without a slash (other than a trailing one) is matched     *)
(*    against the LAST component at any depth; one with a slash at the     *)
(*    beginning or in the middle is matched against the whole path;        *)
(*  - a trailing slash restricts the pattern to directories;               *)
(*  - * and ? and [..] never match a slash; a leading ** / matches in all  *)
(*    directories, a trailing /** everything inside, /**/ zero or more     *)
(*    directories;                                                         *)
(*  - the LAST matching pattern decides; ! negates;                        *)
(*  - a file cannot be re-included if a parent directory is excluded.      *)
(***************************************************************************)
EXTENDS Naturals, Sequences, FiniteSets, TLC

Chars(s) == [i \in 1..Len(s) |-> SubSeq(s, i, i)]

RECURSIVE Glob(_, _, _, _)
Glob(g, s, i, j) ==
  IF i > Len(g) THEN j > Len(s)
  ELSE LET a == g[i] IN
    CASE a.t = "star" -> \E k \in j..(Len(s) + 1) : Glob(g, s, i + 1, k)
      [] a.t = "q"    -> j <= Len(s) /\ Glob(g, s, i + 1, j + 1)
      [] a.t = "c"    -> j <= Len(s) /\ s[j] = a.c /\ Glob(g, s, i + 1, j + 1)
      [] a.t = "cls"  -> j <= Len(s) /\ ((s[j] \in a.set) # a.neg) /\ Glob(g, s, i + 1, j + 1)
GlobMatch(g, name) == Glob(g, Chars(name), 1, 1)

IsStarStar(seg) == Len(seg) = 1 /\ seg[1].t = "ss"

RECURSIVE Segs(_, _, _, _)
Segs(ps, cs, i, j) ==
  IF i > Len(ps) THEN j > Len(cs)
  ELSE IF IsStarStar(ps[i]) THEN
       IF i = Len(ps) THEN j <= Len(cs)                         \* trailing /** : something inside
       ELSE \E k \in j..(Len(cs) + 1) : Segs(ps, cs, i + 1, k)  \* zero or more directories
  ELSE j <= Len(cs) /\ GlobMatch(ps[i], cs[j]) /\ Segs(ps, cs, i + 1, j + 1)

Matches(p, cs, isdir) ==
  IF p.kind # "pat" THEN FALSE
  ELSE IF p.dironly /\ ~isdir THEN FALSE
  ELSE IF ~p.anchored /\ Len(p.segs) = 1 /\ ~IsStarStar(p.segs[1]) THEN GlobMatch(p.segs[1], cs[Len(cs)])
  ELSE Segs(p.segs, cs, 1, 1)

\* last matching pattern decides
RECURSIVE DecideR(_, _, _, _)
DecideR(ps, cs, isdir, i) ==
  IF i = 0 THEN FALSE
  ELSE IF Matches(ps[i], cs, isdir) THEN ~ps[i].neg ELSE DecideR(ps, cs, isdir, i - 1)
Decide(ps, cs, isdir) == DecideR(ps, cs, isdir, Len(ps))

\* cs names a FILE (regular or not); its proper prefixes are directories
Ignored(ps, cs) ==
  \/ \E k \in 1..(Len(cs) - 1) : Decide(ps, SubSeq(cs, 1, k), TRUE)
  \/ Decide(ps, cs, FALSE)
============================================================================
