------------------------------- MODULE CExpr -------------------------------
(***************************************************************************)
(* ISO C semantics of #if / #elif controlling expressions (C11 6.10.1,     *)
(* 6.6): token sequences -> value.  All arithmetic is in intmax_t /        *)
(* uintmax_t = 64 bits (module CInt, NL = 8).                              *)
(*                                                                         *)
(* Tokens (records):                                                       *)
(*   [t |-> "lit", sp, base, ds, u, chr]  integer literal: spelling, base, *)
(*        digits (most significant first), has a u/U suffix; or a          *)
(*        character constant when chr = TRUE (ds = <<code>>)               *)
(*   [t |-> "bop", o]   binary operator   [t |-> "uop", o]  unary operator *)
(*   [t |-> "lp"] [t |-> "rp"] [t |-> "q"] [t |-> "c"]   ( ) ? :           *)
(*   [t |-> "id", sp, val]   identifier left after macro expansion (val=0) *)
(*                           or the result of defined X (val in {0,1})     *)
(* The parser is the C grammar in "split" form: a token sequence is split  *)
(* at its top-level operator of LOWEST precedence (the rightmost one for   *)
(* left-associative tiers, the leftmost `?` for the conditional operator), *)
(* which is equivalent to the precedence/associativity table of 6.5.       *)
(*                                                                         *)
(* Eval returns [v (limbs), u (unsigned), def (no undefined behaviour, no  *)
(* diagnostic)]; expressions with def = FALSE are outside the property.    *)
(***************************************************************************)
EXTENDS Naturals, Sequences
NL == 8
INSTANCE CInt

Prec(o) == CASE o = "||" -> 2 [] o = "&&" -> 3 [] o = "|" -> 4 [] o = "^" -> 5 [] o = "&" -> 6
             [] o \in {"==", "!="} -> 7 [] o \in {"<", "<=", ">", ">="} -> 8
             [] o \in {"<<", ">>"} -> 9 [] o \in {"+", "-"} -> 10 [] o \in {"*", "/", "%"} -> 11

Bool(b) == [v |-> IF b THEN One ELSE Z, u |-> FALSE, def |-> TRUE]
Truthy(x) == ~IsZero(x.v)

\* ---- literals ----------------------------------------------------------------------------
IntMaxL == [i \in 1..8 |-> IF i = 8 THEN 127 ELSE 255]
LitVal(tk) ==
  IF tk.chr THEN [v |-> FromNat(tk.ds[1]), u |-> FALSE, def |-> TRUE]
  ELSE LET r == FromDigits(tk.base, tk.ds)
           big == LtU(IntMaxL, r.v)         \* does not fit intmax_t
       IN IF r.ovf THEN [v |-> r.v, u |-> TRUE, def |-> FALSE]
          ELSE IF tk.u THEN [v |-> r.v, u |-> TRUE, def |-> TRUE]
          \* unsuffixed decimal too large for intmax_t: gcc diagnoses it -> outside the property
          ELSE IF big /\ tk.base = 10 THEN [v |-> r.v, u |-> TRUE, def |-> FALSE]
          \* unsuffixed octal/hex/binary that fits only uintmax_t IS uintmax_t (6.4.4.1)
          ELSE [v |-> r.v, u |-> big, def |-> TRUE]

\* ---- operators ---------------------------------------------------------------------------
ApplyU(o, x) ==
  CASE o = "+" -> x
    [] o = "-" -> [v |-> Neg(x.v), u |-> x.u, def |-> x.def /\ (x.u \/ ~NegOvf(x.v))]
    [] o = "~" -> [v |-> NotL(x.v), u |-> x.u, def |-> x.def]
    [] o = "!" -> [Bool(IsZero(x.v)) EXCEPT !.def = x.def]

ApplyB(o, a, b) ==
  LET u == a.u \/ b.u          \* usual arithmetic conversions: unsigned wins at equal rank
      d == a.def /\ b.def
  IN
  CASE o = "*" -> [v |-> Mul(a.v, b.v), u |-> u, def |-> d /\ (u \/ ~MulOvf(a.v, b.v))]
    [] o = "+" -> [v |-> Add(a.v, b.v), u |-> u, def |-> d /\ (u \/ ~AddOvf(a.v, b.v))]
    [] o = "-" -> [v |-> Sub(a.v, b.v), u |-> u, def |-> d /\ (u \/ ~SubOvf(a.v, b.v))]
    [] o = "/" -> IF IsZero(b.v) THEN [v |-> Z, u |-> u, def |-> FALSE]
                  ELSE IF u THEN [v |-> DivModU(a.v, b.v).q, u |-> TRUE, def |-> d]
                  ELSE IF a.v = IntMin /\ b.v = AllOnes THEN [v |-> Z, u |-> FALSE, def |-> FALSE]
                  ELSE [v |-> DivS(a.v, b.v), u |-> FALSE, def |-> d]
    [] o = "%" -> IF IsZero(b.v) THEN [v |-> Z, u |-> u, def |-> FALSE]
                  ELSE IF u THEN [v |-> DivModU(a.v, b.v).r, u |-> TRUE, def |-> d]
                  ELSE IF a.v = IntMin /\ b.v = AllOnes THEN [v |-> Z, u |-> FALSE, def |-> FALSE]
                  ELSE [v |-> ModS(a.v, b.v), u |-> FALSE, def |-> d]
    [] o = "&" -> [v |-> AndL(a.v, b.v), u |-> u, def |-> d]
    [] o = "|" -> [v |-> OrL(a.v, b.v), u |-> u, def |-> d]
    [] o = "^" -> [v |-> XorL(a.v, b.v), u |-> u, def |-> d]
    \* shifts: the result has the type of the (promoted) LEFT operand; the count must be in 0..63
    [] o = "<<" -> LET okc == (b.u \/ ~Sign(b.v)) /\ IsSmall(b.v, 64) IN
                   IF ~okc THEN [v |-> Z, u |-> a.u, def |-> FALSE]
                   ELSE [v |-> Shl(a.v, Small(b.v)), u |-> a.u, def |-> d /\ (a.u \/ ~ShlOvf(a.v, Small(b.v)))]
    [] o = ">>" -> LET okc == (b.u \/ ~Sign(b.v)) /\ IsSmall(b.v, 64) IN
                   IF ~okc THEN [v |-> Z, u |-> a.u, def |-> FALSE]
                   ELSE [v |-> IF a.u THEN ShrU(a.v, Small(b.v)) ELSE ShrS(a.v, Small(b.v)), u |-> a.u, def |-> d]
    [] o = "<"  -> [Bool(IF u THEN LtU(a.v, b.v) ELSE LtS(a.v, b.v)) EXCEPT !.def = d]
    [] o = ">"  -> [Bool(IF u THEN LtU(b.v, a.v) ELSE LtS(b.v, a.v)) EXCEPT !.def = d]
    [] o = "<=" -> [Bool(~(IF u THEN LtU(b.v, a.v) ELSE LtS(b.v, a.v))) EXCEPT !.def = d]
    [] o = ">=" -> [Bool(~(IF u THEN LtU(a.v, b.v) ELSE LtS(a.v, b.v))) EXCEPT !.def = d]
    [] o = "==" -> [Bool(a.v = b.v) EXCEPT !.def = d]
    [] o = "!=" -> [Bool(a.v # b.v) EXCEPT !.def = d]
    \* && and || : the right operand is not evaluated when the left decides (so its UB is harmless)
    [] o = "&&" -> [Bool(Truthy(a) /\ Truthy(b)) EXCEPT !.def = a.def /\ (~Truthy(a) \/ b.def)]
    [] o = "||" -> [Bool(Truthy(a) \/ Truthy(b)) EXCEPT !.def = a.def /\ (Truthy(a) \/ b.def)]

\* ---- the parser in split form ---------------------------------------------------------------
\* nesting depth before token i
RECURSIVE DepthAt(_, _)
DepthAt(ts, i) == IF i <= 1 THEN 0
                  ELSE IF ts[i - 1].t = "lp" THEN DepthAt(ts, i - 1) + 1
                  ELSE IF ts[i - 1].t = "rp" THEN DepthAt(ts, i - 1) - 1
                  ELSE DepthAt(ts, i - 1)

TopIdx(ts, kind) == {i \in 1..Len(ts) : ts[i].t = kind /\ DepthAt(ts, i) = 0}
Min(S) == CHOOSE x \in S : \A y \in S : x <= y
Max(S) == CHOOSE x \in S : \A y \in S : x >= y

\* the ':' matching the '?' at q: the first top-level ':' after q at ?-nesting 0
RECURSIVE MatchColon(_, _, _)
MatchColon(ts, i, n) ==
  IF i > Len(ts) THEN 0
  ELSE IF DepthAt(ts, i) # 0 THEN MatchColon(ts, i + 1, n)
  ELSE IF ts[i].t = "q" THEN MatchColon(ts, i + 1, n + 1)
  ELSE IF ts[i].t = "c" THEN (IF n = 0 THEN i ELSE MatchColon(ts, i + 1, n - 1))
  ELSE MatchColon(ts, i + 1, n)

Bad == [v |-> Z, u |-> FALSE, def |-> FALSE]

RECURSIVE Eval(_)
Eval(ts) ==
  IF ts = <<>> THEN Bad
  ELSE
  LET qs == TopIdx(ts, "q")
      bs == TopIdx(ts, "bop")
  IN
  IF qs # {} THEN
     LET q == Min(qs) c == MatchColon(ts, q + 1, 0) IN
     IF c = 0 THEN Bad
     ELSE LET cond == Eval(SubSeq(ts, 1, q - 1))
              a == Eval(SubSeq(ts, q + 1, c - 1))
              b == Eval(SubSeq(ts, c + 1, Len(ts)))
              u == a.u \/ b.u
          IN IF Truthy(cond) THEN [v |-> a.v, u |-> u, def |-> cond.def /\ a.def]
             ELSE [v |-> b.v, u |-> u, def |-> cond.def /\ b.def]
  ELSE IF bs # {} THEN
     LET lo == Min({Prec(ts[i].o) : i \in bs})
         k == Max({i \in bs : Prec(ts[i].o) = lo})      \* all binary tiers are left-associative
     IN ApplyB(ts[k].o, Eval(SubSeq(ts, 1, k - 1)), Eval(SubSeq(ts, k + 1, Len(ts))))
  ELSE IF ts[1].t = "uop" THEN
     LET x == Eval(Tail(ts)) IN ApplyU(ts[1].o, x)
  ELSE IF ts[1].t = "lp" /\ ts[Len(ts)].t = "rp" THEN Eval(SubSeq(ts, 2, Len(ts) - 1))
  ELSE IF Len(ts) = 1 /\ ts[1].t = "lit" THEN LitVal(ts[1])
  ELSE IF Len(ts) = 1 /\ ts[1].t = "id" THEN [v |-> FromNat(ts[1].val), u |-> FALSE, def |-> TRUE]
  ELSE Bad
============================================================================
