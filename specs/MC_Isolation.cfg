SPECIFICATION SpecI
CONSTANTS
  Profile = "c08m"
  Shard = 1
  NShards = 1
  Reset = "all"
INVARIANT Composition
INVARIANT Projection
PROPERTY AssocMonotone
CHECK_DEADLOCK FALSE
