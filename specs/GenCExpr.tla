----------------------------- MODULE GenCExpr -----------------------------
(***************************************************************************)
(* Generator for C02: behaviours build a token sequence of a #if           *)
(* expression left to right (operand / operator alternation, balanced      *)
(* parentheses and ?:), over a literal catalogue and operator set chosen   *)
(* by Profile.  TLC's BFS enumerates EVERY expression up to MaxTok tokens; *)
(* -simulate draws long random ones.  Emit evaluates the reference         *)
(* semantics (CExpr.Eval) and prints spelling + expected value.            *)
(***************************************************************************)
EXTENDS Naturals, Sequences, FiniteSets, TLC, Json, CExpr

CONSTANTS Profile, Shard, NShards

D(n) == IF n < 10 THEN <<n>> ELSE IF n < 100 THEN <<n \div 10, n % 10>> ELSE <<n \div 100, (n \div 10) % 10, n % 10>>
L(sp, base, ds, u) == [t |-> "lit", sp |-> sp, base |-> base, ds |-> ds, u |-> u, chr |-> FALSE]
Ch(sp, code) == [t |-> "lit", sp |-> sp, base |-> 10, ds |-> <<code>>, u |-> FALSE, chr |-> TRUE]
Dec(sp, n) == L(sp, 10, D(n), FALSE)
F16 == [i \in 1..16 |-> 15]

SmallLits == {Dec("1", 1), Dec("2", 2), Dec("7", 7)}
SmallLits4 == SmallLits \cup {Dec("3", 3), L("2u", 10, <<2>>, TRUE)}
Boundary == {Dec("0", 0), Dec("1", 1), Dec("2", 2), Dec("3", 3), Dec("7", 7), Dec("8", 8), Dec("63", 63), Dec("64", 64),
             Dec("255", 255),
             L("9223372036854775807", 10, <<9,2,2,3,3,7,2,0,3,6,8,5,4,7,7,5,8,0,7>>, FALSE),
             L("9223372036854775808u", 10, <<9,2,2,3,3,7,2,0,3,6,8,5,4,7,7,5,8,0,8>>, TRUE),
             L("18446744073709551615u", 10, <<1,8,4,4,6,7,4,4,0,7,3,7,0,9,5,5,1,6,1,5>>, TRUE),
             L("1u", 10, <<1>>, TRUE), L("0u", 10, <<0>>, TRUE)}
Spellings == {L("010", 8, <<1, 0>>, FALSE), L("017", 8, <<1, 7>>, FALSE), L("0x10", 16, <<1, 0>>, FALSE),
              L("0X1f", 16, <<1, 15>>, FALSE), L("0b101", 2, <<1, 0, 1>>, FALSE), L("0B11", 2, <<1, 1>>, FALSE),
              L("1u", 10, <<1>>, TRUE), L("2U", 10, <<2>>, TRUE), L("3l", 10, <<3>>, FALSE), L("4L", 10, <<4>>, FALSE),
              L("5ul", 10, <<5>>, TRUE), L("6UL", 10, <<6>>, TRUE), L("7ll", 10, <<7>>, FALSE), L("8LL", 10, <<8>>, FALSE),
              L("9ull", 10, <<9>>, TRUE), L("10ULL", 10, <<1, 0>>, TRUE), L("11lu", 10, <<1, 1>>, TRUE),
              L("12LLU", 10, <<1, 2>>, TRUE), L("0x7fffffffffffffff", 16, <<7>> \o [i \in 1..15 |-> 15], FALSE),
              L("0xffffffffffffffff", 16, F16, FALSE), L("0xFFFFFFFFFFFFFFFFu", 16, F16, TRUE),
              L("0x8000000000000000", 16, <<8>> \o [i \in 1..15 |-> 0], FALSE),
              L("01777777777777777777777", 8, <<1>> \o [i \in 1..21 |-> 7], FALSE),
              L("0777", 8, <<7, 7, 7>>, FALSE), L("00", 8, <<0>>, FALSE), L("0x0", 16, <<0>>, FALSE),
              \* prefixes combined with suffixes
              L("010u", 8, <<1, 0>>, TRUE), L("0777UL", 8, <<7, 7, 7>>, TRUE), L("017ll", 8, <<1, 7>>, FALSE),
              L("0x10L", 16, <<1, 0>>, FALSE), L("0x1fu", 16, <<1, 15>>, TRUE), L("0b11u", 2, <<1, 1>>, TRUE),
              L("0u", 10, <<0>>, TRUE), L("0L", 10, <<0>>, FALSE),
              Ch("'a'", 97), Ch("'0'", 48), Ch("' '", 32), Ch("'\\n'", 10), Ch("'\\0'", 0), Ch("'\\t'", 9),
              Ch("'\\\\'", 92), Ch("'\\''", 39), Ch("'\\x41'", 65), Ch("'\\101'", 65), Ch("'\\a'", 7), Ch("'\"'", 34),
              Ch("'/'", 47), Ch("'*'", 42)}
Ids == {[t |-> "id", sp |-> "defined(DEF)", val |-> 1], [t |-> "id", sp |-> "defined DEF", val |-> 1],
        [t |-> "id", sp |-> "defined(UNDEF)", val |-> 0], [t |-> "id", sp |-> "defined UNDEF", val |-> 0],
        [t |-> "id", sp |-> "UNDEF", val |-> 0], [t |-> "id", sp |-> "DEF", val |-> 1],
        [t |-> "id", sp |-> "true_", val |-> 0], [t |-> "id", sp |-> "UNDEF(1, 2)", val |-> 0]}

AllB == {"*", "/", "%", "+", "-", "<<", ">>", "<", "<=", ">", ">=", "==", "!=", "&", "^", "|", "&&", "||"}
AllU == {"+", "-", "!", "~"}

P == CASE Profile = "bin1" -> [lits |-> Boundary, bops |-> AllB, uops |-> {}, par |-> FALSE, tern |-> FALSE, max |-> 3]
      [] Profile = "bin2" -> [lits |-> SmallLits, bops |-> AllB, uops |-> {}, par |-> FALSE, tern |-> FALSE, max |-> 5]
      [] Profile = "bin2t" -> [lits |-> SmallLits4, bops |-> AllB, uops |-> {}, par |-> FALSE, tern |-> FALSE, max |-> 5]
      [] Profile = "lit" -> [lits |-> Spellings \cup Ids, bops |-> {}, uops |-> AllU, par |-> FALSE, tern |-> FALSE, max |-> 2]
      [] Profile = "un" -> [lits |-> {Dec("0", 0), Dec("1", 1), Dec("2", 2), L("1u", 10, <<1>>, TRUE),
                                      L("9223372036854775807", 10, <<9,2,2,3,3,7,2,0,3,6,8,5,4,7,7,5,8,0,7>>, FALSE)},
                            bops |-> {"+", "-", "*", "<", "==", "&&", "<<"}, uops |-> AllU, par |-> FALSE, tern |-> FALSE, max |-> 5]
      [] Profile = "tern" -> [lits |-> {Dec("0", 0), Dec("1", 1), Dec("2", 2), L("0u", 10, <<0>>, TRUE)},
                              bops |-> {"-", "<", "||", "=="}, uops |-> {"-"}, par |-> FALSE, tern |-> TRUE, max |-> 6]
      [] Profile = "par" -> [lits |-> {Dec("1", 1), Dec("2", 2), Dec("7", 7)}, bops |-> {"*", "-", "<<", "<", "==", "&", "&&", "||", "/"},
                             uops |-> {}, par |-> TRUE, tern |-> FALSE, max |-> 7]
      [] Profile = "unq" -> [lits |-> {Dec("0", 0), Dec("2", 2), L("1u", 10, <<1>>, TRUE)},
                            bops |-> {"-", "*", "<", "&&", "<<"}, uops |-> AllU, par |-> FALSE, tern |-> FALSE, max |-> 5]
      [] Profile = "parq" -> [lits |-> {Dec("1", 1), Dec("2", 2), Dec("7", 7)}, bops |-> {"*", "-", "<<", "<", "&&", "/"},
                             uops |-> {}, par |-> TRUE, tern |-> FALSE, max |-> 7]
      [] Profile = "sim" -> [lits |-> Boundary \cup Spellings \cup Ids \cup SmallLits4, bops |-> AllB, uops |-> AllU,
                             par |-> TRUE, tern |-> TRUE, max |-> 17]

VARIABLES toks, want, depth, qs, done
\* want: "operand" or "operator"; depth: open parens; qs: Seq of depths at which a '?' awaits its ':'
vars == <<toks, want, depth, qs, done>>

Init == toks = <<>> /\ want = "operand" /\ depth = 0 /\ qs = <<>> /\ done = FALSE

Room(n) == Len(toks) + n + depth + Len(qs) * 2 <= P.max

AddLit == /\ ~done /\ want = "operand" /\ Room(1)
          /\ \E l \in P.lits : toks' = Append(toks, l)
          /\ want' = "operator" /\ UNCHANGED <<depth, qs, done>>
AddUop == /\ ~done /\ want = "operand" /\ Room(2)
          /\ \E o \in P.uops : toks' = Append(toks, [t |-> "uop", o |-> o])
          /\ UNCHANGED <<want, depth, qs, done>>
AddLp == /\ ~done /\ P.par /\ want = "operand" /\ Room(4)
         /\ toks' = Append(toks, [t |-> "lp"]) /\ depth' = depth + 1 /\ UNCHANGED <<want, qs, done>>
AddRp == /\ ~done /\ want = "operator" /\ depth > 0 /\ (IF qs = <<>> THEN TRUE ELSE qs[Len(qs)] < depth)
         /\ toks[Len(toks)].t # "lp"
         /\ toks' = Append(toks, [t |-> "rp"]) /\ depth' = depth - 1 /\ UNCHANGED <<want, qs, done>>
AddBop == /\ ~done /\ want = "operator" /\ Room(2)
          /\ \E o \in P.bops : toks' = Append(toks, [t |-> "bop", o |-> o])
          /\ want' = "operand" /\ UNCHANGED <<depth, qs, done>>
AddQ == /\ ~done /\ P.tern /\ want = "operator" /\ Room(4)
        /\ toks' = Append(toks, [t |-> "q"]) /\ qs' = Append(qs, depth)
        /\ want' = "operand" /\ UNCHANGED <<depth, done>>
AddC == /\ ~done /\ want = "operator" /\ qs # <<>> /\ qs[Len(qs)] = depth /\ Room(1)
        /\ toks' = Append(toks, [t |-> "c"]) /\ qs' = SubSeq(qs, 1, Len(qs) - 1)
        /\ want' = "operand" /\ UNCHANGED <<depth, done>>

Sp(tk) == CASE tk.t = "lit" -> tk.sp [] tk.t = "id" -> tk.sp [] tk.t \in {"bop", "uop"} -> tk.o
            [] tk.t = "lp" -> "(" [] tk.t = "rp" -> ")" [] tk.t = "q" -> "?" [] tk.t = "c" -> ":"

\* a ':' closes the innermost '?': sequences are complete when nothing is pending.  NB: after
\* AddC the pending '?' is popped although its third operand may itself contain '?' - fine.
Complete == want = "operator" /\ depth = 0 /\ qs = <<>> /\ toks # <<>>

Hash == (Len(toks) * 31 + Cardinality({i \in 1..Len(toks) : toks[i].t = "bop" /\ toks[i].o \in {"+", "<", "&&", "/", "^"}}) * 7
         + Cardinality({i \in 1..Len(toks) : toks[i].t = "lit" /\ toks[i].sp \in {"1", "0", "7", "255", "'a'"}}) * 3) % NShards

Emit == /\ ~done /\ Complete
        /\ done' = TRUE /\ UNCHANGED <<toks, want, depth, qs>>
        /\ (Hash = Shard) =>
             LET r == Eval(toks) IN
             PrintT(ToJson([sp |-> [i \in 1..Len(toks) |-> Sp(toks[i])], v |-> r.v, u |-> r.u, def |-> r.def,
                            truth |-> ~IsZero(r.v)]))

Next == AddLit \/ AddUop \/ AddLp \/ AddRp \/ AddBop \/ AddQ \/ AddC \/ Emit
Spec == Init /\ [][Next]_vars

\* M: properties of the reference semantics itself, on every generated expression
RelationalIs01 ==
  (Complete /\ ~done) =>
     LET bs == TopIdx(toks, "bop") IN
     (TopIdx(toks, "q") = {} /\ bs # {}) =>
        LET lo == Min({Prec(toks[i].o) : i \in bs}) k == Max({i \in bs : Prec(toks[i].o) = lo}) IN
        toks[k].o \in {"<", "<=", ">", ">=", "==", "!=", "&&", "||"} => Eval(toks).v \in {Z, One}
============================================================================
