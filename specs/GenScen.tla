----------------------------- MODULE GenScen -----------------------------
(***************************************************************************)
(* Scenario generator for the multi-file properties (C04 C08 C10 C13 C15   *)
(* C18): behaviours CONSTRUCT a small source tree (headers of the same     *)
(* name in several directories, guarded / #pragma once / unguarded, that   *)
(* define, undefine and test macros and include each other), one or two    *)
(* main files, and translation units (platform, main file, -D, ordered     *)
(* -I/-isystem list, -include).  At Emit the reference semantics           *)
(* (PreprocCore.RunTU) is evaluated for every translation unit ALONE, and  *)
(* the scenario + expectations are printed as one JSON line.               *)
(*                                                                         *)
(* The invariants below are the design-level statements of C04/C08/C18 on  *)
(* the reference machine; the harness binds them to the code.              *)
(***************************************************************************)
EXTENDS Naturals, Sequences, FiniteSets, TLC, Json, SequencesExt, PreprocCore, Reports

CONSTANTS Profile, Shard, NShards

Iu(d) == [d |-> d, sys |-> FALSE]
Is(d) == [d |-> d, sys |-> TRUE]

\* Profiles: bounds for the exhaustive (quick/thorough) and simulated runs of each property.
P == CASE Profile = "c04q" ->
            [slots |-> <<<<"src", "h.h">>, <<"inc", "h.h">>, <<"sys", "h.h">>, <<"inc", "g.h">>>>,
             bodies |-> {"def", "guard", "incq"}, stmts |-> {"qh", "ah", "qg", "undefM"}, maxmain |-> 2, nmains |-> 1,
             idirs |-> {<<Iu("inc"), Is("sys")>>, <<Iu("inc")>>, <<Is("sys"), Iu("inc")>>, <<Iu("sys"), Iu("inc")>>},
             forced |-> {<<>>}, nents |-> 1, plats |-> <<"p1">>]
      [] Profile = "c04t" ->
            [slots |-> <<<<"src", "h.h">>, <<"inc", "h.h">>, <<"sys", "h.h">>, <<"inc", "g.h">>, <<"src", "g.h">>>>,
             bodies |-> {"def", "guard", "once", "incq", "inca", "testX"},
             stmts |-> {"qh", "ah", "qg", "ag", "defX", "mq", "ma", "undefM", "undefG", "inch"}, maxmain |-> 3, nmains |-> 1,
             idirs |-> {<<Iu("inc"), Is("sys")>>, <<Iu("inc")>>, <<Is("sys"), Iu("inc")>>, <<Iu("sys"), Iu("inc")>>, <<>>},
             forced |-> {<<>>, <<"g.h">>, <<"h.h", "g.h">>}, nents |-> 1, plats |-> <<"p1">>]
      [] Profile = "c04h" ->
            \* computed includes whose operand comes from the command line: two TUs of ONE platform
            [slots |-> <<<<"inc", "h.h">>, <<"inc", "g.h">>, <<"src", "h.h">>>>,
             bodies |-> {"def", "guard"}, stmts |-> {"inch", "mq", "qg"}, maxmain |-> 2, nmains |-> 1,
             idirs |-> {<<Iu("inc")>>}, forced |-> {<<>>}, nents |-> 2, plats |-> <<"p1">>]
      [] Profile = "c04g" ->
            \* re-inclusion: guards and #pragma once, with the guard macros undefined between two inclusions
            [slots |-> <<<<"inc", "h.h">>, <<"src", "h.h">>>>,
             bodies |-> {"guard", "once", "onceT", "def", "selfinc"}, stmts |-> {"qh", "undefG", "undefM"}, maxmain |-> 3, nmains |-> 1,
             idirs |-> {<<Iu("inc")>>}, forced |-> {<<>>}, nents |-> 1, plats |-> <<"p1">>]
      [] Profile = "c04s" ->
            \* include names with directory components: a header in a subdirectory of an include directory
            \* ("sub/k.h") and one named through a directory link followed by ".." ("tosub/../j.h", where
            \* inc/tosub -> src/sub: the file is physically src/j.h, lexically it would be inc/j.h)
            [slots |-> <<<<"inc", "sub/k.h">>, <<"inc", "tosub/../j.h">>, <<"inc", "h.h">>>>,
             bodies |-> {"def", "onceT", "guard"}, stmts |-> {"qk", "ak", "qj", "aj", "qh"}, maxmain |-> 2, nmains |-> 1,
             idirs |-> {<<Iu("inc")>>, <<Is("inc")>>}, forced |-> {<<>>}, nents |-> 1, plats |-> <<"p1">>]
      [] Profile = "sim" ->
            [slots |-> <<<<"src", "h.h">>, <<"inc", "h.h">>, <<"sys", "h.h">>, <<"ext", "h.h">>,
                         <<"src", "g.h">>, <<"inc", "g.h">>, <<"ext", "g.h">>, <<"inc", "sub/k.h">>, <<"inc", "tosub/../j.h">>>>,
             bodies |-> {"plain", "def", "guard", "once", "onceT", "selfinc", "testX", "undefX", "defX", "incq", "inca", "gincq", "indX"},
             stmts |-> {"qh", "ah", "qg", "ag", "defX", "undefX", "testX", "valX", "mq", "ma", "dead", "undefM", "undefG", "inch", "indX", "qk", "ak", "qj", "aj"},
             maxmain |-> 4, nmains |-> 2,
             idirs |-> {<<Iu("inc"), Is("sys")>>, <<Iu("inc")>>, <<Is("sys"), Iu("inc")>>, <<Iu("sys"), Iu("inc")>>, <<>>,
                        <<Iu("ext"), Iu("inc")>>, <<Iu("inc"), Iu("ext"), Is("sys")>>, <<Iu("src"), Iu("inc")>>, <<Iu("inc"), Iu("src")>>},
             forced |-> {<<>>, <<"g.h">>, <<"h.h", "g.h">>}, nents |-> 3, plats |-> <<"p1", "p2">>]
      [] Profile = "c08q" ->
            [slots |-> <<<<"inc", "h.h">>, <<"inc", "g.h">>>>,
             bodies |-> {"once", "guard", "testX", "defX", "undefX", "indX"}, stmts |-> {"qh", "qg", "testX", "valX", "defX", "inch", "indX"},
             maxmain |-> 2, nmains |-> 2, idirs |-> {<<Iu("inc")>>}, forced |-> {<<>>}, nents |-> 2, plats |-> <<"p1", "p2">>]
      [] Profile = "c08s" ->
            \* the same header name beside the includers and in a -I directory, included in BOTH forms by two
            \* translation units of one or two platforms: small enough to enumerate every scenario
            \* (and a header that only -include brings in: two commands that differ in nothing else)
            [slots |-> <<<<"src", "h.h">>, <<"inc", "h.h">>, <<"inc", "g.h">>>>,
             bodies |-> {"def"}, stmts |-> {"qh", "ah"}, maxmain |-> 1, nmains |-> 2,
             idirs |-> {<<Iu("inc")>>}, forced |-> {<<>>, <<"g.h">>}, nents |-> 2, plats |-> <<"p1", "p2">>]
      [] Profile = "c08m" ->
            [slots |-> <<<<"inc", "h.h">>, <<"inc", "g.h">>>>,
             bodies |-> {"once", "guard", "testX", "defX", "undefX"}, stmts |-> {"qh", "qg", "testX", "defX"},
             maxmain |-> 1, nmains |-> 2, idirs |-> {<<Iu("inc")>>}, forced |-> {<<>>}, nents |-> 2, plats |-> <<"p1", "p2">>]
      [] Profile = "c06" ->
            [slots |-> <<<<"src", "h.h">>, <<"inc", "h.h">>, <<"sys", "g.h">>, <<"bld", "g.h">>, <<"ext", "g.h">>>>,
             bodies |-> {"plain", "def", "guard", "testX", "incq"}, stmts |-> {"qh", "ah", "qg", "ag", "testX", "defX", "dead"},
             maxmain |-> 3, nmains |-> 2,
             idirs |-> {<<Iu("inc"), Iu("sys")>>, <<Iu("inc"), Is("sys")>>, <<Iu("bld"), Iu("inc"), Iu("sys")>>,
                        <<Iu("sys"), Iu("inc"), Iu("bld")>>,      \* the same SET of directories in another order
                        <<Iu("ext"), Iu("inc"), Is("sys")>>},
             \* (two platform names that differ only in letter case: distinct platforms)
             forced |-> {<<>>}, nents |-> 3, plats |-> <<"p1", "P1", "p3">>]
      [] Profile = "c14s" ->
            \* two commands whose include directories are the same SET in either order, one header name in both
            \* directories: every scenario (the platform order of the analysis file then decides nothing)
            [slots |-> <<<<"sys", "g.h">>, <<"bld", "g.h">>>>,
             bodies |-> {"def"}, stmts |-> {"ag"}, maxmain |-> 1, nmains |-> 1,
             idirs |-> {<<Iu("bld"), Iu("sys")>>, <<Iu("sys"), Iu("bld")>>},
             \* (-include g.h: found through the -I list, so it names another file for either command)
             forced |-> {<<>>, <<"g.h">>}, nents |-> 2, plats |-> <<"p1", "P1">>]
      [] Profile = "c06s" ->
            \* C06/C10, small enough to enumerate EVERY scenario: one header name beside the mains and in the -I
            \* directory whose body depends on X, two mains that include it in either form, two commands over one
            \* or two platforms with X defined or not (every split of the lines over {}, {p1}, {p2}, {p1,p2})
            [slots |-> <<<<"src", "h.h">>, <<"inc", "h.h">>>>,
             bodies |-> {"testX"}, stmts |-> {"qh", "ah"}, maxmain |-> 1, nmains |-> 2,
             idirs |-> {<<Iu("inc")>>}, forced |-> {<<>>}, nents |-> 2, plats |-> <<"p1", "p2">>]
      [] Profile = "c10" ->
            \* headers that change and test the macro state, included several times by one TU, inside and outside the root
            [slots |-> <<<<"inc", "h.h">>, <<"ext", "g.h">>, <<"inc", "g.h">>>>,
             bodies |-> {"testX", "defX", "undefX", "plain", "def"}, stmts |-> {"qh", "ah", "qg", "ag", "defX", "undefX", "testX"},
             maxmain |-> 4, nmains |-> 1,
             idirs |-> {<<Iu("inc"), Iu("ext")>>, <<Iu("ext"), Iu("inc")>>},
             forced |-> {<<>>}, nents |-> 1, plats |-> <<"p1">>]
      [] Profile = "c18s" ->
            \* every scenario: a header whose body is ONE computed include (`#include HDR`), included once or twice by a
            \* translation unit that redefines HDR in between - to a header that exists or to a name that exists nowhere
            [slots |-> <<<<"inc", "h.h">>, <<"inc", "g.h">>>>,
             bodies |-> {"incm", "def"}, stmts |-> {"hg", "hn"}, maxmain |-> 2, nmains |-> 1,
             idirs |-> {<<Iu("inc")>>}, forced |-> {<<>>}, nents |-> 1, plats |-> <<"p1">>]
      [] Profile = "c18" ->
            \* (root/h.h: a header directly in the analysis root, which is on no search path of its own)
            [slots |-> <<<<"src", "h.h">>, <<"inc", "h.h">>, <<"inc", "g.h">>, <<"ext", "g.h">>, <<"root", "h.h">>>>,
             bodies |-> {"def", "guard", "once", "miss", "unk", "incq", "testX"},
             stmts |-> {"qh", "ah", "qg", "ag", "missq", "missa", "unk", "dead", "mq", "ma", "defX", "inch"},
             maxmain |-> 3, nmains |-> 2,
             idirs |-> {<<Iu("inc")>>, <<>>, <<Iu("inc"), Is("ext")>>}, forced |-> {<<>>}, nents |-> 3, plats |-> <<"p1", "p2">>]

\* C18 only: the compiler named by the command (one CBI does not know), an option it does not
\* model, and a "ghost" database entry (for a file that does not exist) placed before the entry
CcChoices == IF Profile = "c18" THEN {"gcc", "weirdcc"} ELSE {"gcc"}
FlagChoices == IF Profile = "c18" THEN {"", "-fweird-option", "-fopen", "-nostdinc"} ELSE {""}   \* -fopen: a prefix of an option gcc knows
GhostChoices == IF Profile = "c18" THEN {FALSE, TRUE} ELSE {FALSE}
\* -DHDR=<header name>: the operand of a computed include may come from the command line, so the same
\* `#include HDR` directive means different files in different translation units
HdrChoices == CASE Profile = "c18" -> {"U", "q:h.h", "a:g.h", "q:nope.h"}
                [] Profile \in {"sim", "c04t", "c08q", "c04h"} -> {"U", "q:h.h", "a:g.h", "q:g.h"}
                [] OTHER -> {"U"}

\* the value -DX gets: the same NAME may be defined to different values by the commands of one platform
XChoices == IF Profile \in {"sim", "c08q"} THEN {"U", "1", "0"} ELSE IF Profile \in {"c08s", "c14s"} THEN {"U"} ELSE {"U", "1"}

Slots == P.slots
Bodies == P.bodies
MainStmts == P.stmts
MaxMain == P.maxmain
NMains == P.nmains
IdirChoices == P.idirs
ForcedChoices == P.forced
NEntries == P.nents
Plats == P.plats

C == [k |-> "code"]
Dirs == {"src", "inc", "sys", "ext", "bld", "root"}
Mk(d) == "M_" \o d
G(n) == IF n = "h.h" THEN "G_h" ELSE "G_g"
Other(n) == IF n = "h.h" THEN "g.h" ELSE "h.h"
Macros == {Mk(d) : d \in Dirs} \cup {"G_h", "G_g", "X", "HDR", "Y"}

Def(m, v) == [k |-> "define", m |-> m, v |-> v]
If(c) == [k |-> "if", c |-> c]
IfDef(m) == If([t |-> "def", m |-> m])
IfNdef(m) == If([t |-> "ndef", m |-> m])
Endif == [k |-> "endif"]
Else == [k |-> "else"]
Inc(f, n) == [k |-> "include", form |-> f, name |-> n]

\* ---- header bodies -----------------------------------------------------------------------
Body(b, d, n) ==
  CASE b = "plain"  -> <<C>>
    [] b = "def"    -> <<Def(Mk(d), "1"), C>>
    [] b = "guard"  -> <<IfNdef(G(n)), Def(G(n), ""), Def(Mk(d), "1"), C, Endif>>
    [] b = "once"   -> <<[k |-> "once"], Def(Mk(d), "1"), C>>
    [] b = "testX"  -> <<IfDef("X"), C, Else, C, Endif, Def(Mk(d), "1")>>
    \* #pragma once on a header whose second pass would be visible (it defines what it tests)
    [] b = "onceT"  -> <<[k |-> "once"], IfDef("X"), C, Else, C, Endif, Def("X", "1")>>
    [] b = "undefX" -> <<[k |-> "undef", m |-> "X"], C>>
    [] b = "defX"   -> <<Def("X", "1"), C>>
    [] b = "incq"   -> <<Def(Mk(d), "1"), Inc("q", Other(n)), C>>
    \* a header that includes ITSELF (the guard bounds the recursion) and has text after the guarded part: the
    \* nested pass sees X undefined and defines it, the outer pass then sees it defined
    [] b = "selfinc" -> <<IfNdef(G(n)), Def(G(n), ""), Inc("q", n), Endif, IfDef("X"), C, Else, C, Endif, Def("X", "1")>>
    [] b = "inca"   -> <<Def(Mk(d), "1"), Inc("a", Other(n)), C>>
    [] b = "gincq"  -> <<IfNdef(G(n)), Def(G(n), ""), Inc("q", Other(n)), C, Endif>>
    [] b = "miss"   -> <<C, Inc("q", "nope.h"), Inc("a", "nope.h"), C>>
    [] b = "unk"    -> <<[k |-> "unknown"], C>>
    [] b = "incm"   -> <<[k |-> "includem", m |-> "HDR"], C>>
    [] b = "indX"   -> <<IfNdef("Y"), Def("Y", "m:X"), Endif, If([t |-> "val", m |-> "Y"]), C, Else, C, Endif>>

\* ---- main-file statements ----------------------------------------------------------------
Stmt(s) ==
  CASE s = "qh" -> <<Inc("q", "h.h"), C>>
    [] s = "ah" -> <<Inc("a", "h.h"), C>>
    [] s = "qg" -> <<Inc("q", "g.h"), C>>
    [] s = "qk" -> <<Inc("q", "sub/k.h"), C>>
    [] s = "ak" -> <<Inc("a", "sub/k.h"), C>>
    [] s = "qj" -> <<Inc("q", "tosub/../j.h"), C>>
    [] s = "aj" -> <<Inc("a", "tosub/../j.h"), C>>
    [] s = "ag" -> <<Inc("a", "g.h"), C>>
    [] s = "defX" -> <<Def("X", "1"), C>>
    [] s = "undefX" -> <<[k |-> "undef", m |-> "X"], C>>
    [] s = "testX" -> <<IfDef("X"), C, Else, C, Endif>>
    [] s = "valX" -> <<If([t |-> "val", m |-> "X"]), C, Else, C, Endif>>
    [] s = "mq" -> <<Def("HDR", "q:h.h"), [k |-> "includem", m |-> "HDR"], [k |-> "undef", m |-> "HDR"], C>>
    [] s = "ma" -> <<Def("HDR", "a:h.h"), [k |-> "includem", m |-> "HDR"], [k |-> "undef", m |-> "HDR"], C>>
    [] s = "dead" -> <<If([t |-> "const", n |-> 0]), Inc("q", "h.h"), Inc("q", "nope.h"), C, Endif>>
    [] s = "missq" -> <<Inc("q", "nope.h"), C>>
    [] s = "missa" -> <<Inc("a", "nope.h"), C>>
    [] s = "unk" -> <<[k |-> "unknown"], C>>
    \* a condition that names Y, whose value is the identifier X: the outcome depends on X only indirectly
    [] s = "indX" -> <<Def("Y", "m:X"), If([t |-> "val", m |-> "Y"]), C, Else, C, Endif, [k |-> "undef", m |-> "Y"]>>
    [] s = "hg" -> <<Def("HDR", "q:g.h"), Inc("q", "h.h"), [k |-> "undef", m |-> "HDR"], C>>
    [] s = "hn" -> <<Def("HDR", "q:nope.h"), Inc("q", "h.h"), [k |-> "undef", m |-> "HDR"], C>>
    [] s = "inch" -> <<IfDef("HDR"), [k |-> "includem", m |-> "HDR"], Endif, C>>
    [] s = "undefM" -> <<[k |-> "undef", m |-> "M_inc"], [k |-> "undef", m |-> "M_src"], C>>
    \* the include guards are ordinary macros: once undefined, a guarded header contributes its body again
    [] s = "undefG" -> <<[k |-> "undef", m |-> "G_h"], [k |-> "undef", m |-> "G_g"], C>>

\* every main ends by testing which header's macro is visible (so that the choice of header
\* is observable even when the header itself lies outside the code base)
Probe == <<IfDef("M_src"), C, Endif, IfDef("M_inc"), C, Endif, IfDef("M_sys"), C, Endif,
           IfDef("M_ext"), C, Endif, IfDef("X"), C, Else, C, Endif>>

VARIABLES stage,   \* "hdr" | "main" | "tu" | "done"
          si,      \* next slot index (stage hdr) / current main index (stage main)
          files,   \* [FileId -> [dir, name, items]]
          cur,     \* items of the main being built
          ns,      \* statements in cur
          ents     \* Seq([plat, file, defs, idirs, forced])
vars == <<stage, si, files, cur, ns, ents>>

Fid(d, n) == d \o "/" \o n
\* C06: the code base also holds a byte-identical COPY of the first main (a vendored duplicate) in another
\* directory; the copy may be compiled by other commands than the original, or by none
HasCopy == Profile \in {"c06", "sim"}
CopyId == "inc/m1.c"
MainId(i) == IF i = 1 THEN "src/m1.c" ELSE IF i = 2 THEN "src/m2.c" ELSE CopyId
MainName(i) == IF i = 1 THEN "m1.c" ELSE IF i = 2 THEN "m2.c" ELSE "m1.c"
Empty == [x \in {} |-> x]

Init == stage = "hdr" /\ si = 1 /\ files = Empty /\ cur = <<C>> /\ ns = 0 /\ ents = <<>>

SkipSlot == /\ stage = "hdr" /\ si <= Len(Slots)
            /\ si' = si + 1 /\ UNCHANGED <<stage, files, cur, ns, ents>>
\* headers whose NAME has directory components live (physically) in another directory than the one the
\* reference files them under, so they must not contain quote includes of their own
Including == {"incq", "inca", "gincq", "selfinc", "miss"}
HasDirPart(n) == \E i \in 1..Len(n) : SubSeq(n, i, i) = "/"
AddHeader == /\ stage = "hdr" /\ si <= Len(Slots)
             /\ \E b \in Bodies :
                  LET d == Slots[si][1] n == Slots[si][2] IN
                  /\ (HasDirPart(n) => b \notin Including)
                  /\ (Profile = "c18s" => (b = "incm" <=> n = "h.h"))
                  /\ files' = files @@ (Fid(d, n) :> [dir |-> d, name |-> n, items |-> Body(b, d, n)])
             /\ si' = si + 1 /\ UNCHANGED <<stage, cur, ns, ents>>
HdrDone == /\ stage = "hdr" /\ si > Len(Slots)
           /\ stage' = "main" /\ si' = 1 /\ UNCHANGED <<files, cur, ns, ents>>

AddStmt == /\ stage = "main" /\ ns < MaxMain
           /\ \E s \in MainStmts : cur' = cur \o Stmt(s)
           /\ ns' = ns + 1 /\ UNCHANGED <<stage, si, files, ents>>
CloseMain == /\ stage = "main" /\ ns > 0
             /\ files' = files @@ (MainId(si) :> [dir |-> "src", name |-> MainName(si), items |-> cur \o Probe])
                          @@ (IF HasCopy /\ si = 1 THEN (CopyId :> [dir |-> "inc", name |-> "m1.c", items |-> cur \o Probe, copyof |-> MainId(1)])
                              ELSE Empty)
             /\ cur' = <<C>> /\ ns' = 0
             /\ IF si < NMains THEN si' = si + 1 /\ stage' = "main" ELSE si' = 1 /\ stage' = "tu"
             /\ UNCHANGED ents

DefsOf(x, hdr) == [m \in Macros |-> IF m = "X" THEN x ELSE IF m = "HDR" THEN hdr ELSE "U"]
AddEntry == /\ stage = "tu" /\ Len(ents) < NEntries
            /\ \E p \in 1..Len(Plats), mi \in 1..(NMains + IF HasCopy THEN 1 ELSE 0), x \in XChoices, ids \in IdirChoices, fo \in ForcedChoices,
                  cc \in CcChoices, xf \in FlagChoices, gh \in GhostChoices, hd \in HdrChoices :
                 \* canonical: platforms are used in order, without gaps
                 /\ (IF p = 1 THEN TRUE ELSE \E j \in 1..Len(ents) : ents[j].plat = Plats[p - 1])
                 /\ ents' = Append(ents, [plat |-> Plats[p], file |-> MainId(mi), x |-> x, idirs |-> ids, forced |-> fo,
                                          cc |-> cc, xflag |-> xf, ghost |-> gh, hdr |-> hd])
            /\ UNCHANGED <<stage, si, files, cur, ns>>

\* the order in which a compiler searches: -I directories first, then -isystem directories
SearchOrder(ids) == LET U == SelectSeq(ids, LAMBDA r : ~r.sys)
                        S == SelectSeq(ids, LAMBDA r : r.sys)
                    IN [i \in 1..(Len(U) + Len(S)) |-> IF i <= Len(U) THEN U[i].d ELSE S[i - Len(U)].d]

RefEntry(e) == [file |-> e.file, defs |-> DefsOf(e.x, e.hdr), idirs |-> SearchOrder(e.idirs), forced |-> e.forced, cwd |-> "root"]
Run(e) == RunTU(files, RefEntry(e))

AttrSeq(S) == SetToSeq(S)
Result(e) == LET r == Run(e) IN
  [attr |-> AttrSeq(r.attr), warns |-> r.warns, ok |-> ~r.err]

Hash == (Len(ents) + Cardinality(DOMAIN files) * 3 +
         Len(files["src/m1.c"].items) * 5 +
         Cardinality({f \in DOMAIN files : Len(files[f].items) > 2}) * 7) % NShards

\* ---- C06: what the reports must show (one physical line per item in the plain rendering) --------
DirPath(d) == CASE d = "src" -> <<"src">> [] d = "inc" -> <<"inc">> [] d = "sys" -> <<"sys", "include">>
                [] d = "bld" -> <<"build">> [] d = "root" -> <<>> [] OTHER -> <<d>>
PlatSetOf == {ents[i].plat : i \in 1..Len(ents)}
AttrOf(p) == UNION {Run(ents[i]).attr : i \in {j \in 1..Len(ents) : ents[j].plat = p}}
LinesFor(plats) ==
  LET A == TLCEval([p \in plats |-> AttrOf(p)])
      M == {g \in DOMAIN files : files[g].dir # "ext"}
  IN UNION {{[f |-> f, path |-> Append(DirPath(files[f].dir), files[f].name), i |-> i,
              ps |-> {p \in plats : <<f, i>> \in A[p]}] : i \in 1..Len(files[f].items)} : f \in M}
RealLines(plats) == TLCEval(LinesFor(plats))
TreeOut(L) == LET t == Tree(L) ps == SetToSeq(DOMAIN t) IN
  [j \in 1..Len(ps) |-> [path |-> ps[j], sloc |-> t[ps[j]].sloc, plats |-> SetToSeq(t[ps[j]].plats),
                          cov |-> t[ps[j]].cov, avg |-> t[ps[j]].avg]]
RepOut(plats) ==
  LET L == RealLines(plats) tab == TLCEval(Tab(L)) ks == SetToSeq(DOMAIN tab) IN
  [setmap |-> [j \in 1..Len(ks) |-> [k |-> SetToSeq(ks[j]), n |-> tab[ks[j]]]],
   total |-> Sloc(L), tree |-> TreeOut(L), ptree |-> TreeOut(Pruned(L)),
   cov |-> [f \in FilesOf(L) |-> CovExport(L, f)],
   \* the distance matrix of the clustering report (Metrics.Distance: <<num, den>>, <<0, 0>> = NaN)
   dist |-> [p \in plats |-> [q \in plats |-> Distance(tab, p, q)]],
   laws |-> RowsPartition(L) /\ DirIsSumOfChildren(L) /\ RootIsSummary(L) /\ PruneDropsExactlyUnused(L)
            /\ UsedUnusedPartition(L)]
WithReports == Profile \in {"c06", "c14s", "c06s"}

\* ---- C18: what must be reported (one warning per occurrence) ---------------------------------
\* files CBI parses: every code-base file, plus outside files some TU enters
WarnExpect ==
  LET R == TLCEval([i \in 1..Len(ents) |-> Run(ents[i])])
      parsed == {f \in DOMAIN files : files[f].dir # "ext"} \cup
                {f \in DOMAIN files : \E i \in 1..Len(ents) : \E x \in R[i].attr : x[1] = f}
      unknown == SumF([f \in parsed |-> Cardinality({i \in 1..Len(files[f].items) : files[f].items[i].k = "unknown"})])
      inc(form) == SumF([i \in 1..Len(ents) |-> Len(SelectSeq(R[i].warns, LAMBDA w : w.form = form))])
      user == inc("q") sys == inc("a")
      ghosts == Cardinality({i \in 1..Len(ents) : ents[i].ghost})
      ccs == Cardinality({i \in 1..Len(ents) : ents[i].cc # "gcc"})
      flags == Cardinality({i \in 1..Len(ents) : ents[i].xflag # ""})
  IN [user |-> user, system |-> sys, unknown |-> unknown, ghost |-> ghosts, compiler |-> ccs, flag |-> flags,
      total |-> user + sys + unknown + ghosts + ccs + flags,
      silent |-> (\A i \in 1..Len(ents) : R[i].warns = <<>>) /\ unknown = 0 /\ ghosts = 0 /\ ccs = 0 /\ flags = 0]
WithWarns == Profile \in {"c18", "c18s"}

Emit == /\ stage = "tu" /\ Len(ents) = NEntries
        /\ stage' = "done" /\ UNCHANGED <<si, files, cur, ns, ents>>
        /\ (Hash = Shard) =>
             IF WithWarns
             THEN PrintT(ToJson([files |-> files, ents |-> ents,
                            res |-> [i \in 1..Len(ents) |-> Result(ents[i])], warn |-> WarnExpect]))
             ELSE IF WithReports
             THEN PrintT(ToJson([files |-> files, ents |-> ents,
                            res |-> [i \in 1..Len(ents) |-> Result(ents[i])],
                            rep |-> RepOut(PlatSetOf), rep0 |-> RepOut({})]))
             ELSE PrintT(ToJson([files |-> files, ents |-> ents,
                            res |-> [i \in 1..Len(ents) |-> Result(ents[i])]]))

Next == SkipSlot \/ AddHeader \/ HdrDone \/ AddStmt \/ CloseMain \/ AddEntry \/ Emit
Spec == Init /\ [][Next]_vars

--------------------------------------------------------------------------
Ready == stage = "tu" /\ Len(ents) = NEntries

\* C04 (design level): resolution is a function of (form, name, directory of the includer,
\* search order) only - the machine has no memory of earlier look-ups - and a guarded or
\* #pragma once header contributes its body at most once per TU: every attributed item of a
\* once-protected file is attributed by exactly one inclusion (checked via the machine never
\* re-entering a file in `once`).
RefTotal == Ready => \A i \in 1..Len(ents) : Run(ents[i]).done

\* C18 (design level): a TU that resolves every reached include produces no warning, and each
\* warning names an include item that is attributed (reached).
WarnsOnlyReached == Ready => \A i \in 1..Len(ents) : LET r == Run(ents[i]) IN
   \A w \in 1..Len(r.warns) : <<r.warns[w].file, r.warns[w].idx>> \in r.attr

\* C08 (design level): a platform's attribution is the union over its TUs run ALONE from a fresh
\* state, hence independent of their order.
PlatformAttrOf(p, order) == UNION {Run(ents[order[j]]).attr : j \in {k \in 1..Len(order) : ents[order[k]].plat = p}}
\* C06 (design level): the report identities hold for the attribution of every generated scenario
ReportLaws == (Ready /\ WithReports) => (RepOut(PlatSetOf).laws /\ RepOut({}).laws)

\* C10 (design level): excluding any set X of code-base files removes exactly X's lines from the
\* platform-set table; the attribution itself is computed by a machine that has no notion of
\* membership, so nothing else can change.
ExclusionAdditive ==
  (Ready /\ WithReports) =>
     LET L == RealLines(PlatSetOf) IN
     \A X \in SUBSET FilesOf(L) :
        LET rest == {l \in L : l.f \notin X} gone == {l \in L : l.f \in X} IN
        /\ Sloc(rest) + Sloc(gone) = Sloc(L)
        /\ \A S \in DOMAIN Tab(L) :
              (IF S \in DOMAIN Tab(rest) THEN Tab(rest)[S] ELSE 0) + (IF S \in DOMAIN Tab(gone) THEN Tab(gone)[S] ELSE 0) = Tab(L)[S]

\* C18 (design level): input that is fully honoured produces no expected warning at all, and the
\* totals are the sums of the categories
HonouredIsSilent ==
  (Ready /\ WithWarns) =>
     LET w == WarnExpect IN
     /\ w.total = w.user + w.system + w.unknown + w.ghost + w.compiler + w.flag
     /\ (w.silent <=> w.total = 0)

OrderIndependent == Ready => \A p \in {Plats[i] : i \in 1..Len(Plats)} :
   PlatformAttrOf(p, [i \in 1..Len(ents) |-> i]) = PlatformAttrOf(p, [i \in 1..Len(ents) |-> Len(ents) + 1 - i])
==========================================================================
