SPECIFICATION Spec
CONSTANTS
  Shard = 0
  NShards = 1
INVARIANT AliasesResolve
INVARIANT ResolveIdempotent
CHECK_DEADLOCK FALSE
