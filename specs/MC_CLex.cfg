SPECIFICATION Spec
INVARIANT NoMismatch
VIEW View
CHECK_DEADLOCK FALSE
