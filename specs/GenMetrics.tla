----------------------------- MODULE GenMetrics -----------------------------
(***************************************************************************)
(* Generator + design check for C07: behaviours assign to every subset of  *)
(* the platforms either "absent" or a count, enumerating every table.      *)
(* Invariants are the algebraic laws of the property on the reference      *)
(* definitions; Emit prints each table with its exact metrics.             *)
(***************************************************************************)
EXTENDS Naturals, Integers, Sequences, FiniteSets, TLC, Json, SequencesExt, Metrics

CONSTANTS Profile, Shard, NShards

NP == IF Profile \in {"p2", "p2x"} THEN 2 ELSE 3
Plat == 1..NP
Counts == CASE Profile = "p2" -> {0, 1, 2, 5} [] Profile = "p2x" -> {0, 1, 2, 3, 5, 7}
            [] Profile = "p3q" -> {1, 2} [] Profile = "p3" -> {0, 1, 3} [] Profile = "p3t" -> {0, 1, 2, 5}
Subsets == SetToSeq(SUBSET Plat)

VARIABLES tab,  \* function from a prefix of Subsets (as sets) to counts
          i, done
vars == <<tab, i, done>>
Empty == [x \in {} |-> 0]
Init == tab = Empty /\ i = 1 /\ done = FALSE
Skip == ~done /\ i <= Len(Subsets) /\ i' = i + 1 /\ UNCHANGED <<tab, done>>
Put == /\ ~done /\ i <= Len(Subsets)
       /\ \E c \in Counts : tab' = tab @@ (Subsets[i] :> c)
       /\ i' = i + 1 /\ UNCHANGED done

Complete == i > Len(Subsets)
T == tab
P == PlatformsOf(T)

Rename(TT, pi) == [k \in {{pi[p] : p \in kk} : kk \in DOMAIN TT} |->
                     TT[CHOOSE kk \in DOMAIN TT : {pi[p] : p \in kk} = k]]
Scale(TT, n) == [k \in DOMAIN TT |-> n * TT[k]]
Perms == {pi \in [Plat -> Plat] : \A a, b \in Plat : a # b => pi[a] # pi[b]}

InRange(r, hi) == IsNaN(r) \/ (RLe(<<0, 1>>, r) /\ RLe(r, <<hi, 1>>))

Laws ==
  (Complete /\ ~done) =>
    /\ \A p, q \in P : Distance(T, p, q) = Distance(T, q, p)
    /\ \A p \in P : Distance(T, p, p) = <<0, 1>>
    /\ \A p, q \in P : InRange(Distance(T, p, q), 1)
    /\ InRange(Divergence(T), 1)
    /\ \A S \in SUBSET P : InRange(Coverage(T, S), 100) /\ InRange(AvgCoverage(T, S), 100)
    /\ \A pi \in Perms : /\ Divergence(Rename(T, pi)) = Divergence(T)
                         /\ Coverage(Rename(T, pi), {pi[p] : p \in P}) = Coverage(T, P)
                         /\ AvgCoverage(Rename(T, pi), {pi[p] : p \in P}) = AvgCoverage(T, P)
    /\ \A n \in {2, 3, 10} : /\ Divergence(Scale(T, n)) = Divergence(T)
                             /\ Coverage(Scale(T, n), P) = Coverage(T, P)
                             /\ AvgCoverage(Scale(T, n), P) = AvgCoverage(T, P)
                             /\ \A p, q \in P : Distance(Scale(T, n), p, q) = Distance(T, p, q)
    /\ IsNaN(Coverage(T, P)) = (Total(T) = 0)
    /\ IsNaN(AvgCoverage(T, P)) = (Total(T) = 0 \/ P = {})
    /\ (Cardinality(P) < 2 => IsNaN(Divergence(T)))

Hash == (Cardinality(DOMAIN tab) * 3 + Total(T)) % NShards
Keyseq == SetToSeq(DOMAIN tab)
Emit == /\ Complete /\ ~done /\ done' = TRUE /\ UNCHANGED <<tab, i>>
        /\ (Hash = Shard) =>
             PrintT(ToJson([np |-> NP,
                            table |-> [j \in 1..Len(Keyseq) |-> [k |-> SetToSeq(Keyseq[j]), n |-> tab[Keyseq[j]]]],
                            plats |-> SetToSeq(P),
                            cov |-> [S \in SUBSET P |-> Coverage(T, S)],
                            avg |-> [S \in SUBSET P |-> AvgCoverage(T, S)],
                            covkeys |-> SetToSeq(SUBSET P),
                            dist |-> [p \in P |-> [q \in P |-> Distance(T, p, q)]],
                            div |-> Divergence(T)]))
Next == Skip \/ Put \/ Emit
Spec == Init /\ [][Next]_vars
=============================================================================
