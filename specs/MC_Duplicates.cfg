SPECIFICATION Spec
CONSTANTS
  N = 4
  Pool = {"", "a", "b"}
  Kinds = {"reg", "sym"}
  Hashes = {1, 2}
  Shard = 0
  NShards = 1
INVARIANT LoopCorrect
INVARIANT GroupsGenuine
INVARIANT GroupsDisjoint
CHECK_DEADLOCK FALSE
