------------------------------ MODULE ArgvTok ------------------------------
(***************************************************************************)
(* From a raw argument vector to the tokens CompilerCfg.Parse interprets.  *)
(* ONE left-to-right scan (as Argv.Scan): -D -I -isystem -include take     *)
(* their value attached or as the next argument; an option of the          *)
(* compiler's own rules is written `flag`, `flag=value` or `flag value`    *)
(* (no value for append_const rules); unmodelled options with a separate   *)
(* value (Argv.Arity1) are skipped together with it, everything else is    *)
(* skipped alone.                                                          *)
(* aux[i] carries, for argument i, what the harness computed mechanically  *)
(* with Python's str.split / re.findall for the rule named by the flag:    *)
(*   [att |-> [parts, matches]]  value attached after "="                  *)
(*   [sep |-> [parts, matches]]  value = the next argument                 *)
(***************************************************************************)
EXTENDS Naturals, Sequences, FiniteSets, TLC, CompilerCfg, Argv

RECURSIVE EqPos(_, _)
EqPos(s, i) == IF i > Len(s) THEN 0 ELSE IF SubSeq(s, i, i) = "=" THEN i ELSE EqPos(s, i + 1)
FlagName(t) == LET e == EqPos(t, 1) IN IF e = 0 THEN t ELSE SubSeq(t, 1, e - 1)
FlagVal(t) == LET e == EqPos(t, 1) IN IF e = 0 THEN "" ELSE SubSeq(t, e + 1, Len(t))

\* result: [toks, ok]   ok = FALSE: a flag is missing its value (the command line is not well formed)
RECURSIVE TokR(_, _, _, _, _)
TokR(c, argv, aux, i, acc) ==
  IF i > Len(argv) THEN acc
  ELSE
  LET t == argv[i]
      hasNext == i < Len(argv)
      std(p) == IF t = p THEN (IF hasNext THEN TokR(c, argv, aux, i + 2, [acc EXCEPT !.toks = Append(@, Tok(p, argv[i + 1], <<>>, <<>>))])
                               ELSE [acc EXCEPT !.ok = FALSE])
                ELSE TokR(c, argv, aux, i + 1, [acc EXCEPT !.toks = Append(@, Tok(p, After(t, p), <<>>, <<>>))])
      name == FlagName(t)
      ri == RuleIdx(c, name)
  IN
  IF HasPrefix(t, "-D") THEN std("-D")
  ELSE IF HasPrefix(t, "-isystem") THEN std("-isystem")
  ELSE IF HasPrefix(t, "-include") THEN std("-include")
  ELSE IF HasPrefix(t, "-I") THEN std("-I")
  ELSE IF ri # 0 THEN
       (IF c.rules[ri].action = "append_const"
        THEN (IF EqPos(t, 1) = 0 THEN TokR(c, argv, aux, i + 1, [acc EXCEPT !.toks = Append(@, Tok(name, "", <<>>, <<>>))])
              ELSE [acc EXCEPT !.ok = FALSE])
        ELSE IF EqPos(t, 1) # 0
             THEN TokR(c, argv, aux, i + 1, [acc EXCEPT !.toks = Append(@, Tok(name, FlagVal(t), aux[i].att.parts, aux[i].att.matches))])
             ELSE IF hasNext
                  THEN TokR(c, argv, aux, i + 2, [acc EXCEPT !.toks = Append(@, Tok(name, argv[i + 1], aux[i].sep.parts, aux[i].sep.matches))])
                  ELSE [acc EXCEPT !.ok = FALSE])
  ELSE IF t \in Arity1 THEN (IF hasNext THEN TokR(c, argv, aux, i + 2, acc) ELSE [acc EXCEPT !.ok = FALSE])
  ELSE TokR(c, argv, aux, i + 1, acc)

Tokenise(c, argv, aux) == TokR(c, argv, aux, 1, [toks |-> <<>>, ok |-> TRUE])
============================================================================
