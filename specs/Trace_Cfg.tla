------------------------------ MODULE Trace_Cfg ------------------------------
(***************************************************************************)
(* Trace validation for the compiler-emulation layer (C11 / C12).          *)
(* Every recorded call of ArgumentParser.parse_args (hook event ParseArgs: *)
(* the compiler definition in effect, the raw argument vector and the      *)
(* configurations that were returned) is judged here: the argument vector  *)
(* is tokenised by ArgvTok.Tokenise, interpreted by CompilerCfg.Parse on a *)
(* one-entry table, and the observed configurations must be exactly the    *)
(* specification's: same set of passes; per pass the defines / include     *)
(* paths / include files begin with the specification's sequence and       *)
(* continue with the contributions of the pass's modes in any order.       *)
(* Input (environment variable TRACE_FILE): JSON array of                  *)
(*   [compiler, argv, aux, configs]   (compiler already in table form).    *)
(* One behaviour, one step per event; one verdict line per event.          *)
(***************************************************************************)
EXTENDS Naturals, Sequences, FiniteSets, TLC, Json, IOUtils, SequencesExt, ArgvTok

Events == JsonDeserialize(IOEnv.TRACE_FILE)

Count(s, x) == Cardinality({i \in 1..Len(s) : s[i] = x})
SameBag(s, t) == Len(s) = Len(t) /\ \A i \in 1..Len(s) : Count(s, s[i]) = Count(t, s[i])
IsPrefixOf(h, s) == Len(h) <= Len(s) /\ SubSeq(s, 1, Len(h)) = h
Rest(h, s) == SubSeq(s, Len(h) + 1, Len(s))

RECURSIVE FlatModes(_, _, _)
FlatModes(c, ms, field) ==    \* ms: Seq of mode names (any order); concatenation of their `field`
  IF ms = <<>> THEN <<>> ELSE c.modes[Head(ms)][field] \o FlatModes(c, Tail(ms), field)

FieldOk(c, x, obs, specField, modeField) ==
  /\ IsPrefixOf(x[specField], obs)
  /\ SameBag(Rest(x[specField], obs), FlatModes(c, SetToSeq(x.modes), modeField))

Judge(e) ==
  LET c == e.compiler
      tk == Tokenise(c, e.argv, e.aux)
      r == Parse([cc |-> c], "cc", tk.toks)
      obsPasses == {e.configs[i].pass : i \in 1..Len(e.configs)}
      specPasses == {x.pass : x \in r.configs}
      cfgOf(p) == CHOOSE i \in 1..Len(e.configs) : e.configs[i].pass = p
      bad == {x \in r.configs :
                LET o == e.configs[cfgOf(x.pass)] IN
                ~(/\ FieldOk(c, x, o.defines, "defines", "defines")
                  /\ FieldOk(c, x, o.include_paths, "ipaths", "ipaths")
                  /\ FieldOk(c, x, o.include_files, "ifiles", "ifiles"))}
  IN IF ~tk.ok THEN "skipped: an option lacks its value"
     ELSE IF Len(e.configs) # Cardinality(obsPasses) THEN "a pass is returned twice"
     ELSE IF obsPasses # specPasses THEN "the set of passes differs from the specification's"
     ELSE IF bad # {} THEN "configuration of pass " \o (CHOOSE x \in bad : TRUE).pass \o " differs from the specification's"
     ELSE "ok"

VARIABLE i
Init == i = 1
Next == /\ i <= Len(Events) /\ i' = i + 1
        /\ PrintT(ToJson([idx |-> i, verdict |-> Judge(Events[i])]))
Spec == Init /\ [][Next]_i
==============================================================================
