SPECIFICATION Spec
CONSTANTS
  NL = 1
  Vals <- ValsAll8
INVARIANT Agree
CHECK_DEADLOCK FALSE
