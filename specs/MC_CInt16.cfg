SPECIFICATION Spec
CONSTANTS
  NL = 2
  Vals <- ValsB16
INVARIANT Agree
CHECK_DEADLOCK FALSE
