--------------------------- MODULE PreprocCore ---------------------------
(***************************************************************************)
(* Reference semantics of the C preprocessor's conditional inclusion,      *)
(* macro table and #include handling on ABSTRACT programs, as a pure        *)
(* small-step function  Step : State -> State.                             *)
(*                                                                         *)
(* A scenario is a record                                                  *)
(*   files : [FileId -> [dir : Dir, name : STRING, items : Seq(Item)]]     *)
(* and a translation unit (entry) is                                       *)
(*   [file : FileId, defs : [Macro -> Val], idirs : Seq(Dir),              *)
(*    forced : Seq(STRING), cwd : Dir]                                      *)
(* Items ("k" is the kind):                                                *)
(*   [k|->"code"]                                                          *)
(*   [k|->"if", c|->Cond] [k|->"elif", c|->Cond] [k|->"else"] [k|->"endif"]*)
(*   [k|->"define", m|->Macro, v|->Val] [k|->"undef", m|->Macro]           *)
(*   [k|->"include", form|->"q"|"a", name|->STRING]                        *)
(*   [k|->"includem", m|->Macro]      computed include: #include M         *)
(*   [k|->"once"]  [k|->"unknown"]                                         *)
(* Values: "U" (undefined), "" (defined empty), "0","1","2",... decimal    *)
(* strings, or "q:<name>" / "a:<name>" (a header name, for computed        *)
(* includes).                                                              *)
(* Conditions:                                                             *)
(*   [t|->"def", m] [t|->"ndef", m] [t|->"val", m] [t|->"eq", m, n]        *)
(*   [t|->"defand", m, m2] (defined(m) && m2) [t|->"const", n]             *)
(*   [t|->"plus", m]  (m + 0)                                              *)
(*   [t|->"bad"]  an expression a compiler would reject if it evaluated it *)
(***************************************************************************)
EXTENDS Naturals, Sequences, FiniteSets, TLC

None == "none"

Top(s)  == s[Len(s)]
Pop(s)  == SubSeq(s, 1, Len(s) - 1)
SetTop(s, x) == [s EXCEPT ![Len(s)] = x]

NumVal(v) == CASE v = "0" -> 0 [] v = "1" -> 1 [] v = "2" -> 2 [] v = "3" -> 3 [] OTHER -> 0

IsNum(v) == v \in {"0", "1", "2", "3"}

\* value of identifier m inside an #if expression: undefined identifiers count as 0; a macro whose
\* value is "m:<other>" is defined as that other identifier and is expanded again (rescanning)
\* result: [v : Nat, err : BOOLEAN]   err: the expression is not a valid constant expression
RECURSIVE MacroNumR(_, _, _)
MacroNumR(defs, m, fuel) ==
  IF m \notin DOMAIN defs \/ defs[m] = "U" THEN [v |-> 0, err |-> FALSE]
  ELSE IF IsNum(defs[m]) THEN [v |-> NumVal(defs[m]), err |-> FALSE]
  ELSE IF Len(defs[m]) > 2 /\ SubSeq(defs[m], 1, 2) = "m:" /\ fuel > 0
       THEN MacroNumR(defs, SubSeq(defs[m], 3, Len(defs[m])), fuel - 1)
  ELSE [v |-> 0, err |-> TRUE]      \* empty or header-name value: "#if " with no/ill expression
MacroNum(defs, m) == MacroNumR(defs, m, 4)

\* Truth of a condition.  [v : BOOLEAN, err : BOOLEAN]
Truth(c, defs) ==
  CASE c.t = "def"    -> [v |-> defs[c.m] # "U", err |-> FALSE]
    [] c.t = "ndef"   -> [v |-> defs[c.m] = "U", err |-> FALSE]
    [] c.t = "val"    -> LET x == MacroNum(defs, c.m) IN [v |-> x.v # 0, err |-> x.err]
    [] c.t = "eq"     -> LET x == MacroNum(defs, c.m) IN [v |-> x.v = c.n, err |-> x.err]
    [] c.t = "defand" -> LET x == MacroNum(defs, c.m2) IN
                         \* the whole expression must parse even when short-circuited
                         [v |-> defs[c.m] # "U" /\ x.v # 0, err |-> x.err]
    \* "M + 0": a valid expression also when M is defined EMPTY (then it is the unary "+ 0")
    [] c.t = "plus"   -> IF defs[c.m] = "" THEN [v |-> FALSE, err |-> FALSE]
                         ELSE LET x == MacroNum(defs, c.m) IN [v |-> x.v # 0, err |-> x.err]
    [] c.t = "const"  -> [v |-> c.n # 0, err |-> FALSE]
    [] c.t = "bad"    -> [v |-> FALSE, err |-> TRUE]

--------------------------------------------------------------------------
\* Include resolution (reference): the includer's directory (quote form only), then the
\* include directories in order; first existing file wins; no memory of earlier look-ups.

FileAt(files, d, n) ==
  LET S == {f \in DOMAIN files : files[f].dir = d /\ files[f].name = n}
  IN IF S = {} THEN None ELSE CHOOSE f \in S : TRUE

RECURSIVE FirstIn(_, _, _, _)
FirstIn(files, dirs, n, i) ==
  IF i > Len(dirs) THEN None
  ELSE LET f == FileAt(files, dirs[i], n) IN
       IF f # None THEN f ELSE FirstIn(files, dirs, n, i + 1)

Resolve(files, form, n, curdir, idirs) ==
  FirstIn(files, (IF form = "q" THEN <<curdir>> ELSE <<>>) \o idirs, n, 1)

--------------------------------------------------------------------------
\* The machine state.
\*  defs   : [Macro -> Val]            per TU
\*  once   : SUBSET FileId             per TU
\*  todo   : Seq(FileId)               files still to start (forced includes, then the main file)
\*  frames : Seq([file, pc, conds])    include stack; conds : Seq([en, taken, act])
\*  attr   : SUBSET (FileId \X Nat)    items attributed to this TU
\*  evald  : SUBSET (FileId \X Nat)    conditions actually evaluated
\*  warns  : Seq([file, idx, name, form])  includes that resolved to no file (each occurrence)
\*  err    : BOOLEAN                   the TU is not well-formed (a compiler would diagnose it)
\*  log    : Seq(event)                observable events, in order (for trace validation)

MaxDepth == 6

InitState(files, e) ==
  LET main == files[e.file]
      \* -include f is searched like #include "f", but starting from the compiler's working
      \* directory (e.cwd) instead of the directory of the main file
      fr(i) == Resolve(files, "q", e.forced[i], e.cwd, e.idirs)
      forced == [i \in 1..Len(e.forced) |-> fr(i)]
      found == SelectSeq(forced, LAMBDA f : f # None)
  IN [defs |-> e.defs, once |-> {}, todo |-> found \o <<e.file>>, frames |-> <<>>,
      attr |-> {}, evald |-> {}, warns |-> <<>>, err |-> Len(found) # Len(forced), done |-> FALSE]

Active(fr) == \A i \in 1..Len(fr.conds) : fr.conds[i].act

Advance(st, fr) == [st EXCEPT !.frames = SetTop(st.frames, [fr EXCEPT !.pc = fr.pc + 1])]

\* StepT is the transition function with the two "oracle" inputs made explicit, so that the
\* trace specification can take them from recorded events instead of computing them:
\*   tv  : [v, err]               truth of the current #if/#elif expression (used only if evaluated)
\*   inc : [bad, form, name, f]   what the current #include names and the file it resolves to
StepT(files, st, tv, inc) ==
  IF st.frames = <<>> THEN
      IF st.todo = <<>> THEN [st EXCEPT !.done = TRUE]
      ELSE [st EXCEPT !.frames = <<[file |-> Head(st.todo), pc |-> 1, conds |-> <<>>]>>,
                      !.todo = Tail(st.todo)]
  ELSE
  LET fr == Top(st.frames)
      F  == files[fr.file]
  IN
  IF fr.pc > Len(F.items) THEN
      \* end of file: every chain must be closed
      [st EXCEPT !.frames = Pop(st.frames), !.err = st.err \/ fr.conds # <<>>]
  ELSE
  LET it  == F.items[fr.pc]
      id  == <<fr.file, fr.pc>>
      act == Active(fr)
      mark(s) == [s EXCEPT !.attr = s.attr \cup {id}]
      next(s) == Advance(s, fr)
  IN
  CASE it.k \in {"code", "unknown", "other"} -> next(IF act THEN mark(st) ELSE st)
    [] it.k = "if" ->
         IF act
         THEN LET t == tv IN
              [mark(st) EXCEPT !.evald = st.evald \cup {id}, !.err = st.err \/ t.err,
                   !.frames = SetTop(st.frames, [fr EXCEPT !.pc = fr.pc + 1,
                        !.conds = Append(fr.conds, [en |-> TRUE, taken |-> t.v, act |-> t.v])])]
         ELSE [st EXCEPT !.frames = SetTop(st.frames, [fr EXCEPT !.pc = fr.pc + 1,
                        !.conds = Append(fr.conds, [en |-> FALSE, taken |-> FALSE, act |-> FALSE])])]
    [] it.k = "elif" ->
         IF fr.conds = <<>> THEN [next(st) EXCEPT !.err = TRUE]
         ELSE LET c == Top(fr.conds) IN
         IF ~c.en THEN next(st)
         ELSE IF c.taken
              THEN \* a branch was already selected: the expression is NOT evaluated
                   [mark(st) EXCEPT !.frames = SetTop(st.frames, [fr EXCEPT !.pc = fr.pc + 1,
                        !.conds = SetTop(fr.conds, [c EXCEPT !.act = FALSE])])]
              ELSE LET t == tv IN
                   [mark(st) EXCEPT !.evald = st.evald \cup {id}, !.err = st.err \/ t.err,
                        !.frames = SetTop(st.frames, [fr EXCEPT !.pc = fr.pc + 1,
                        !.conds = SetTop(fr.conds, [c EXCEPT !.act = t.v, !.taken = t.v])])]
    [] it.k = "else" ->
         IF fr.conds = <<>> THEN [next(st) EXCEPT !.err = TRUE]
         ELSE LET c == Top(fr.conds) IN
         IF ~c.en THEN next(st)
         ELSE [mark(st) EXCEPT !.frames = SetTop(st.frames, [fr EXCEPT !.pc = fr.pc + 1,
                        !.conds = SetTop(fr.conds, [c EXCEPT !.act = ~c.taken, !.taken = TRUE])])]
    [] it.k = "endif" ->
         IF fr.conds = <<>> THEN [next(st) EXCEPT !.err = TRUE]
         ELSE LET c == Top(fr.conds) IN
         [(IF c.en THEN mark(st) ELSE st) EXCEPT !.frames = SetTop(st.frames,
               [fr EXCEPT !.pc = fr.pc + 1, !.conds = Pop(fr.conds)])]
    [] it.k = "define" ->
         IF ~act THEN next(st)
         ELSE LET old == st.defs[it.m] IN
              next([mark(st) EXCEPT !.defs = IF old = "U" THEN [st.defs EXCEPT ![it.m] = it.v] ELSE st.defs,
                                    !.err = st.err \/ (old # "U" /\ old # it.v)])
    [] it.k = "undef" ->
         IF ~act THEN next(st)
         ELSE next([mark(st) EXCEPT !.defs = [st.defs EXCEPT ![it.m] = "U"]])
    [] it.k = "once" ->
         IF ~act THEN next(st) ELSE next([mark(st) EXCEPT !.once = st.once \cup {fr.file}])
    [] it.k \in {"include", "includem"} ->
         IF ~act THEN next(st)
         ELSE
         LET s1 == next(mark(st)) IN
         IF inc.bad THEN [s1 EXCEPT !.err = TRUE]
         ELSE IF inc.f = None
              THEN [s1 EXCEPT !.warns = Append(st.warns, [file |-> fr.file, idx |-> fr.pc, name |-> inc.name, form |-> inc.form])]
         ELSE IF inc.f \in st.once THEN s1
         ELSE IF Len(st.frames) >= MaxDepth THEN [s1 EXCEPT !.err = TRUE]
         ELSE [s1 EXCEPT !.frames = Append(s1.frames, [file |-> inc.f, pc |-> 1, conds |-> <<>>])]

\* the current item, or a dummy when the machine is between files
CurItem(files, st) ==
  IF st.frames = <<>> THEN [k |-> "none"]
  ELSE LET fr == Top(st.frames) IN
       IF fr.pc > Len(files[fr.file].items) THEN [k |-> "none"] ELSE files[fr.file].items[fr.pc]

NoTruth == [v |-> FALSE, err |-> FALSE]
NoInc == [bad |-> FALSE, form |-> "q", name |-> "", f |-> None]

\* reference oracle for the truth of the current condition
TruthCur(files, st) ==
  LET it == CurItem(files, st) IN
  IF it.k \in {"if", "elif"} THEN Truth(it.c, st.defs) ELSE NoTruth

\* reference oracle for the current include directive
IncCur(files, idirs, st) ==
  LET it == CurItem(files, st) IN
  IF it.k \notin {"include", "includem"} THEN NoInc
  ELSE
  LET mv   == IF it.k = "includem" THEN st.defs[it.m] ELSE ""
      bad  == it.k = "includem" /\ ~(Len(mv) > 2 /\ SubSeq(mv, 1, 2) \in {"q:", "a:"})
      form == IF it.k = "include" THEN it.form ELSE IF bad THEN "q" ELSE SubSeq(mv, 1, 1)
      name == IF it.k = "include" THEN it.name ELSE IF bad THEN "" ELSE SubSeq(mv, 3, Len(mv))
      f    == IF bad THEN None ELSE Resolve(files, form, name, files[Top(st.frames).file].dir, idirs)
  IN [bad |-> bad, form |-> form, name |-> name, f |-> f]

Step(files, idirs, st) == StepT(files, st, TruthCur(files, st), IncCur(files, idirs, st))

RECURSIVE RunFrom(_, _, _, _)
RunFrom(files, idirs, st, fuel) ==
  IF st.done THEN st
  ELSE IF fuel = 0 THEN [st EXCEPT !.err = TRUE, !.done = TRUE]
  ELSE RunFrom(files, idirs, Step(files, idirs, st), fuel - 1)

\* The result of analysing one translation unit alone, from a fresh state.
RunTU(files, e) == RunFrom(files, e.idirs, InitState(files, e), 400)

\* A platform uses exactly the union of what each of its commands uses (C08).
PlatformAttr(files, entries) == UNION {RunTU(files, entries[i]).attr : i \in 1..Len(entries)}
==========================================================================
