---------------------------- MODULE MC_Schedules ----------------------------
(***************************************************************************)
(* C14 at design level: the analysis pipeline with every order the runtime *)
(* is free to choose made explicit:                                        *)
(*   - the order in which platforms are preprocessed (dict / TOML order),  *)
(*   - the order in which code-base files are visited when the platform-   *)
(*     set table is accumulated (set / directory enumeration order),       *)
(*   - the order in which extract_platforms lists the platforms (a set),   *)
(*   - the order in which the tree view assigns labels (LabelOrder).       *)
(* TLC explores every schedule.  Invariant Confluent: when the run is      *)
(* done, the observable - platform-set table, the platforms decoded from   *)
(* each row's labels through the printed legend, the divergence - equals   *)
(* the canonical function of the input, whatever the schedule.             *)
(* LabelOrder = "sorted" is the code; "iteration" (labels assigned in set  *)
(* iteration order while the legend stays sorted) is shown to break it.    *)
(***************************************************************************)
EXTENDS Naturals, Sequences, FiniteSets, TLC, Json, SequencesExt, Metrics

CONSTANTS LabelOrder, Shard, NShards

Plat == {"alpha", "beta", "gamma"}
Files == {"f1", "f2", "f3"}
\* input: for each file, per line the set of platforms using it (chosen at Init)
Inputs == {
  [f1 |-> <<{"alpha"}, {"alpha", "beta"}>>, f2 |-> <<{"beta"}, {}>>, f3 |-> <<{"gamma", "alpha"}>>],
  [f1 |-> <<{"gamma"}>>, f2 |-> <<{"beta"}, {"beta"}>>, f3 |-> <<{}, {"alpha"}>>],
  [f1 |-> <<{"alpha", "beta", "gamma"}>>, f2 |-> <<{"beta", "gamma"}>>, f3 |-> <<{"gamma"}>>] }

VARIABLES input, assoc, pdone, porder, fdone, forder, setmap, eorder, stage
vars == <<input, assoc, pdone, porder, fdone, forder, setmap, eorder, stage>>

Init == /\ input \in Inputs
        /\ assoc = [f \in Files |-> [i \in 1..Len(input[f]) |-> {}]]
        /\ pdone = {} /\ porder = <<>> /\ fdone = {} /\ forder = <<>>
        /\ setmap = [x \in {} |-> 0] /\ eorder = <<>> /\ stage = "preprocess"

\* finder.find: platforms in configuration order (any order)
Preprocess(p) == /\ stage = "preprocess" /\ p \in Plat \ pdone
                 /\ assoc' = [f \in Files |-> [i \in 1..Len(input[f]) |-> IF p \in input[f][i] THEN assoc[f][i] \cup {p} ELSE assoc[f][i]]]
                 /\ pdone' = pdone \cup {p} /\ porder' = Append(porder, p)
                 /\ UNCHANGED <<input, fdone, forder, setmap, eorder, stage>>
StartCount == /\ stage = "preprocess" /\ pdone = Plat /\ stage' = "count"
              /\ UNCHANGED <<input, assoc, pdone, porder, fdone, forder, setmap, eorder>>
\* get_setmap: files in enumeration order (any order)
Bump(sm, k) == [x \in DOMAIN sm \cup {k} |-> IF x = k THEN (IF k \in DOMAIN sm THEN sm[k] + 1 ELSE 1) ELSE sm[x]]
RECURSIVE CountLines(_, _, _)
CountLines(sm, ls, i) == IF i > Len(ls) THEN sm ELSE CountLines(Bump(sm, ls[i]), ls, i + 1)
Count(f) == /\ stage = "count" /\ f \in Files \ fdone
            /\ setmap' = CountLines(setmap, assoc[f], 1)
            /\ fdone' = fdone \cup {f} /\ forder' = Append(forder, f)
            /\ UNCHANGED <<input, assoc, pdone, porder, eorder, stage>>
\* extract_platforms: list(set) in any order
Extract == /\ stage = "count" /\ fdone = Files
           /\ \E o \in {q \in [1..Cardinality(UNION DOMAIN setmap) -> UNION DOMAIN setmap] :
                          \A a, b \in DOMAIN q : a # b => q[a] # q[b]} : eorder' = o
           /\ stage' = "done" /\ UNCHANGED <<input, assoc, pdone, porder, fdone, forder, setmap>>

Next == (\E p \in Plat : Preprocess(p)) \/ StartCount \/ (\E f \in Files : Count(f)) \/ Extract
Spec == Init /\ [][Next]_vars

\* ---- canonical result --------------------------------------------------------------------------
AllLines == UNION {{<<f, i>> : i \in 1..Len(input[f])} : f \in Files}
CanonSetmap == [S \in {input[x[1]][x[2]] : x \in AllLines} |-> Cardinality({x \in AllLines : input[x[1]][x[2]] = S})]

\* tree view: legend letters are assigned to sorted(platforms); row labels are assigned walking
\* `labelseq` and showing letter i iff labelseq[i] is in the row's platforms
Sorted(S) == SortSeq(SetToSeq(S), LAMBDA a, b : a < b)   \* lexicographic on our names: alpha < beta < gamma
Rank(n) == CASE n = "alpha" -> 1 [] n = "beta" -> 2 [] n = "gamma" -> 3
SortedP(S) == SortSeq(SetToSeq(S), LAMBDA a, b : Rank(a) < Rank(b))
LabelSeq == IF LabelOrder = "sorted" THEN SortedP(UNION DOMAIN setmap) ELSE eorder
Legend == SortedP(UNION DOMAIN setmap)
Decoded(row) == {Legend[i] : i \in {j \in 1..Len(LabelSeq) : LabelSeq[j] \in row}}

Confluent ==
  stage = "done" =>
    /\ setmap = CanonSetmap
    /\ \A row \in DOMAIN setmap : Decoded(row) = row
    /\ Divergence(setmap) = Divergence(CanonSetmap)
    /\ Coverage(setmap, UNION DOMAIN setmap) = Coverage(CanonSetmap, UNION DOMAIN CanonSetmap)

\* generator view: print the schedule of each completed behaviour (for replay into the real tool)
Emit == stage = "done" => PrintT(ToJson([porder |-> porder, forder |-> forder, eorder |-> eorder]))
=============================================================================
