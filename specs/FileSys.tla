------------------------------ MODULE FileSys ------------------------------
(***************************************************************************)
(* Abstract file system for C15 / C09 / C13: paths are sequences of names  *)
(* from the file-system root; `links` maps the path of a symbolic link to  *)
(* the (absolute) path it points to.  Resolve is realpath(3): components   *)
(* are resolved left to right, a link is followed as soon as it is         *)
(* reached, and ".." is applied to the RESOLVED prefix (physical parent),   *)
(* not to the spelling.                                                    *)
(***************************************************************************)
EXTENDS Naturals, Sequences, FiniteSets, TLC

Prefix(p, q) == Len(p) <= Len(q) /\ SubSeq(q, 1, Len(p)) = p
Drop(s, n) == SubSeq(s, n + 1, Len(s))
Parent(p) == IF p = <<>> THEN <<>> ELSE SubSeq(p, 1, Len(p) - 1)

\* resolve the remaining components `rest` on top of the already canonical prefix `cur`
RECURSIVE Walk(_, _, _, _)
Walk(links, cur, rest, fuel) ==
  IF rest = <<>> THEN cur
  ELSE IF fuel = 0 THEN <<"__LOOP__">>
  ELSE LET c == Head(rest) IN
       IF c = "." THEN Walk(links, cur, Tail(rest), fuel)
       ELSE IF c = ".." THEN Walk(links, Parent(cur), Tail(rest), fuel)
       ELSE LET nxt == Append(cur, c) IN
            IF nxt \in DOMAIN links
            THEN Walk(links, <<>>, links[nxt] \o Tail(rest), fuel - 1)
            ELSE Walk(links, nxt, Tail(rest), fuel)

Resolve(links, p) == Walk(links, <<>>, p, 8)

\* lexical normalisation (os.path.normpath / abspath): "." dropped, "x/.." collapsed BY NAME.
\* It agrees with Resolve only when no component before a ".." is a link.
RECURSIVE NormR(_, _)
NormR(acc, rest) ==
  IF rest = <<>> THEN acc
  ELSE LET c == Head(rest) IN
       IF c = "." THEN NormR(acc, Tail(rest))
       ELSE IF c = ".." THEN NormR(Parent(acc), Tail(rest))
       ELSE NormR(Append(acc, c), Tail(rest))
Norm(p) == NormR(<<>>, p)
============================================================================
