--------------------------- MODULE Trace_Preproc ---------------------------
(***************************************************************************)
(* Trace validation: events recorded from the real code (hooks guarded by  *)
(* CBI_VERIF=1) are checked against the PreprocCore machine.               *)
(*                                                                         *)
(* Input (JSON, path in environment variable TRACE_FILE): a sequence of    *)
(* traces, one per finder.find run:                                        *)
(*   files : [path -> Seq([k, line, m])]   the program AS CBI PARSED IT    *)
(*           (nodes of its tree in source order, FileNode omitted)         *)
(*   ev    : Seq(event)  with uniform fields                               *)
(*           e, file, kind, line, name, applied, active, result, n1, n2,   *)
(*           names (Seq), dnames (Seq)                                     *)
(* What is NOT logged is inferred or left free, exactly as the guidance    *)
(* suggests: the truth of an #if/#elif expression and the file an include  *)
(* resolves to are taken from the events (StepT's oracle parameters);      *)
(* everything else - which node must be visited next, which nodes must be  *)
(* skipped, when an #elif may be evaluated at all, what #define/#undef/    *)
(* #pragma once must do to the per-TU state, that each TU starts from a    *)
(* fresh state - is dictated by the specification.                         *)
(*                                                                         *)
(* Verdicts are total: a trace that cannot be explained gets the name of   *)
(* the failing clause and the position, and checking continues with the    *)
(* next trace.  One JSON verdict line per trace.                           *)
(***************************************************************************)
EXTENDS Naturals, Sequences, FiniteSets, TLC, Json, IOUtils, PreprocCore

Traces == JsonDeserialize(IOEnv.TRACE_FILE)

VARIABLES tid,   \* index of the current trace
          l,     \* index of the next event in it
          st,    \* PreprocCore machine state of the current TU
          intu,  \* BeginTU seen, EndTU not yet
          pend,  \* a Visit is waiting for its Active event
          fail   \* "" or the failing clause
vars == <<tid, l, st, intu, pend, fail>>

T == Traces[tid]
Files == [f \in DOMAIN T.files |-> [dir |-> "", name |-> f, items |-> T.files[f]]]
Ev == T.ev[l]

\* every macro name mentioned by any trace of the batch (the table is total over it)
MacrosOf(t) == UNION {{t.files[f][i].m : i \in 1..Len(t.files[f])} : f \in DOMAIN t.files}
                 \cup {t.ev[i].name : i \in 1..Len(t.ev)}
Macros == UNION {MacrosOf(Traces[k]) : k \in 1..Len(Traces)}

Fresh == [defs |-> [m \in Macros |-> "U"], once |-> {}, todo |-> <<>>, frames |-> <<>>,
          attr |-> {}, evald |-> {}, warns |-> <<>>, err |-> FALSE, done |-> FALSE]

Init == tid = 1 /\ l = 1 /\ st = Fresh /\ intu = FALSE /\ pend = FALSE /\ fail = ""

KindOf(k) == CASE k = "code" -> "CodeNode" [] k = "if" -> "IfNode" [] k = "elif" -> "ElIfNode"
               [] k = "else" -> "ElseNode" [] k = "endif" -> "EndIfNode" [] k = "define" -> "DefineNode"
               [] k = "undef" -> "UndefNode" [] k = "include" -> "IncludeNode" [] k = "once" -> "PragmaNode"
               [] k = "other" -> "PragmaNode" [] k = "unknown" -> "UnrecognizedDirectiveNode" [] OTHER -> "?"

\* would the reference attribute (visit) the current item?
WouldMark(s) ==
  LET fr == Top(s.frames) it == Files[fr.file].items[fr.pc] IN
  IF it.k \in {"elif", "else", "endif"} THEN fr.conds # <<>> /\ Top(fr.conds).en ELSE Active(fr)

AtEnd(s) == s.frames # <<>> /\ Top(s.frames).pc > Len(Files[Top(s.frames).file].items)

\* let the machine run over the items the reference does not visit
RECURSIVE Skip(_)
Skip(s) == IF s.frames = <<>> \/ AtEnd(s) \/ WouldMark(s) THEN s
           ELSE Skip(StepT(Files, s, NoTruth, NoInc))

Defined(s) == {m \in Macros : s.defs[m] # "U"}

\* ---- one event -> [st, pend, intu, fail] ------------------------------------------------
R(s, p, i, f) == [st |-> s, pend |-> p, intu |-> i, fail |-> f]
Bad(c) == R(st, pend, intu, c)

OnDefine ==
  IF st.frames = <<>> THEN
     \* a -D definition, applied before the TU starts
     IF intu THEN Bad("Define outside any file inside a TU")
     ELSE IF Ev.applied # (st.defs[Ev.name] = "U") THEN Bad("-D Define.applied disagrees with the macro table")
     ELSE R([st EXCEPT !.defs = IF st.defs[Ev.name] = "U" THEN [st.defs EXCEPT ![Ev.name] = "1"] ELSE st.defs],
            FALSE, intu, "")
  ELSE LET it == CurItem(Files, st) IN
     IF ~pend \/ it.k # "define" \/ it.m # Ev.name THEN Bad("Define event without a visited #define of that name")
     ELSE IF Ev.applied # (st.defs[Ev.name] = "U") THEN Bad("Define.applied disagrees with the macro table")
     ELSE R(st, pend, intu, "")

OnUndef ==
  LET it == CurItem(Files, st) IN
  IF ~pend \/ it.k # "undef" \/ it.m # Ev.name THEN Bad("Undef event without a visited #undef of that name")
  ELSE IF Ev.applied # (st.defs[Ev.name] # "U") THEN Bad("Undef.applied disagrees with the macro table")
  ELSE R(st, pend, intu, "")

OnOnce ==
  LET it == CurItem(Files, st) IN
  IF ~pend \/ it.k # "once" \/ Top(st.frames).file # Ev.file THEN Bad("Once event without a visited #pragma once")
  ELSE R(st, pend, intu, "")

OnBeginTU ==
  IF intu \/ st.frames # <<>> THEN Bad("BeginTU inside a TU")
  \* (a look-up memo that survives from an earlier TU is NOT rejected here: a cache as such does not influence
  \*  anything - what it may return is judged on the outcomes, by the scenario checks of C04 / C08; the
  \*  include-once set and the macro table are state of the translation unit itself and must start clean)
  ELSE IF Ev.n2 # 0 THEN Bad("TU does not start with an empty include-once set")
  ELSE IF {Ev.names[j] : j \in 1..Len(Ev.names)} # {Ev.dnames[j] : j \in 1..Len(Ev.dnames)}
       THEN Bad("TU does not start with exactly the -D macros defined")
  ELSE IF Defined(st) # {Ev.dnames[j] : j \in 1..Len(Ev.dnames)}
       THEN Bad("Define events before BeginTU do not match the -D list")
  ELSE R(st, FALSE, TRUE, "")

OnEndTU ==
  IF ~intu THEN Bad("EndTU without BeginTU")
  ELSE IF st.frames # <<>> \/ pend THEN Bad("EndTU while a file is still open")
  ELSE R(Fresh, FALSE, FALSE, "")

OnEnter ==
  IF ~intu THEN Bad("Enter outside a TU")
  ELSE IF Ev.file \notin DOMAIN Files THEN Bad("Enter of a file that was never parsed")
  ELSE IF st.frames = <<>>
       THEN R([st EXCEPT !.frames = <<[file |-> Ev.file, pc |-> 1, conds |-> <<>>]>>], FALSE, intu, "")
  ELSE IF Top(st.frames).file = Ev.file /\ Top(st.frames).pc = 1 /\ ~pend
       THEN R(st, pend, intu, "")     \* frame pushed by the include step (OnResolve)
  ELSE Bad("Enter of a file no include directive asked for")

OnExit ==
  LET s2 == Skip(st) IN
  IF pend THEN Bad("Exit while a visit is pending")
  ELSE IF ~AtEnd(s2) THEN Bad("Exit before every reachable node of the file was visited")
  ELSE IF Top(s2.frames).file # Ev.file THEN Bad("Exit of a file that is not the innermost open file")
  ELSE IF Top(s2.frames).conds # <<>> THEN Bad("file ended inside an open conditional")
  ELSE R(StepT(Files, s2, NoTruth, NoInc), FALSE, intu, "")

OnVisit ==
  IF Ev.kind = "FileNode" THEN
     IF st.frames # <<>> /\ Top(st.frames).file = Ev.file /\ Top(st.frames).pc = 1 /\ ~pend
     THEN R(st, pend, intu, "") ELSE Bad("FileNode visited out of place")
  ELSE
  LET s2 == Skip(st) IN
  IF pend THEN Bad("Visit while the previous visit is unresolved")
  ELSE IF s2.frames = <<>> THEN Bad("Visit outside any file")
  ELSE IF AtEnd(s2) THEN Bad("Visit of a node after the last reachable node (extra visit)")
  ELSE
  LET fr == Top(s2.frames) it == Files[fr.file].items[fr.pc] IN
  IF fr.file # Ev.file \/ it.line # Ev.line \/ KindOf(it.k) # Ev.kind
  THEN Bad("visited node is not the next node the reference reaches (wrong branch taken or skipped)")
  ELSE IF it.k \in {"elif", "else"} /\ Top(fr.conds).taken
       THEN \* chain already decided: no evaluation may follow
            R(StepT(Files, s2, NoTruth, NoInc), FALSE, intu, "")
  ELSE R(s2, TRUE, intu, "")

OnActive ==
  IF Ev.kind = "FileNode" THEN R(st, pend, intu, "")
  ELSE IF Ev.kind = "IncludeNode" THEN
       \* emitted after the included file was processed; the include step itself was taken at Resolve
       IF Ev.active THEN Bad("an #include node reported active") ELSE R(st, pend, intu, "")
  ELSE IF ~pend THEN Bad("node evaluated although the specification forbids it (e.g. #elif of a decided chain)")
  ELSE
  LET it == CurItem(Files, st) fr == Top(st.frames) IN
  IF fr.file # Ev.file \/ it.line # Ev.line THEN Bad("Active event for a different node than the one visited")
  ELSE IF it.k \in {"if", "elif"}
       THEN R(StepT(Files, st, [v |-> Ev.active, err |-> FALSE], NoInc), FALSE, intu, "")
  ELSE IF it.k = "else"
       THEN IF ~Ev.active THEN Bad("#else of an undecided chain not active")
            ELSE R(StepT(Files, st, NoTruth, NoInc), FALSE, intu, "")
  ELSE IF Ev.active THEN Bad("a non-conditional node reported active")
  ELSE R(StepT(Files, st, NoTruth, NoInc), FALSE, intu, "")

OnResolve ==
  IF ~intu THEN Bad("Resolve outside a TU")
  ELSE IF st.frames = <<>> THEN R(st, pend, intu, "")      \* forced include (-include)
  ELSE
  LET it == CurItem(Files, st) IN
  IF ~pend \/ it.k # "include" THEN Bad("Resolve without a visited #include")
  ELSE IF Ev.result # None /\ Ev.result \notin DOMAIN Files /\ Ev.result \notin st.once
       THEN Bad("include resolved to a file that was never parsed")
  ELSE R(StepT(Files, st, NoTruth, [bad |-> FALSE, form |-> "q", name |-> Ev.name, f |-> Ev.result]),
         FALSE, intu, "")

Outcome ==
  CASE Ev.e = "Define"  -> OnDefine
    [] Ev.e = "Undef"   -> OnUndef
    [] Ev.e = "Once"    -> OnOnce
    [] Ev.e = "BeginTU" -> OnBeginTU
    [] Ev.e = "EndTU"   -> OnEndTU
    [] Ev.e = "Enter"   -> OnEnter
    [] Ev.e = "Exit"    -> OnExit
    [] Ev.e = "Visit"   -> OnVisit
    [] Ev.e = "Active"  -> OnActive
    [] Ev.e = "Resolve" -> OnResolve
    [] OTHER -> Bad("unknown event")

Verdict(ok, clause, at) ==
  PrintT(ToJson([verdict |-> tid, id |-> T.id, ok |-> ok, clause |-> clause, at |-> at, events |-> Len(T.ev)]))

NextTrace == /\ tid' = tid + 1 /\ l' = 1 /\ st' = Fresh /\ intu' = FALSE /\ pend' = FALSE /\ fail' = ""

Consume ==
  /\ tid <= Len(Traces) /\ l <= Len(T.ev)
  /\ LET o == Outcome IN
     IF o.fail # ""
     THEN Verdict(FALSE, o.fail, l) /\ NextTrace
     ELSE /\ st' = o.st /\ pend' = o.pend /\ intu' = o.intu /\ fail' = ""
          /\ l' = l + 1 /\ tid' = tid

Finish ==
  /\ tid <= Len(Traces) /\ l > Len(T.ev)
  /\ IF intu \/ st.frames # <<>> \/ pend
     THEN Verdict(FALSE, "trace ends inside a translation unit", l)
     ELSE Verdict(TRUE, "", l)
  /\ NextTrace

Next == Consume \/ Finish
Spec == Init /\ [][Next]_vars

\* the machine state stays well-formed throughout
TypeOK == /\ tid \in 1..(Len(Traces) + 1) /\ l >= 1
          /\ \A i \in 1..Len(st.frames) : st.frames[i].pc >= 1
\* attribution only grows inside a TU (checked as an action property)
AttrMonotone == [][(tid' = tid /\ intu /\ intu') => st.attr \subseteq st'.attr]_vars
============================================================================
