------------------------------- MODULE CScan -------------------------------
(***************************************************************************)
(* Reference scanner for C05: ISO C translation phases 2 and 3 on a        *)
(* sequence of characters, as far as line counting needs them.             *)
(*   phase 2: every backslash immediately followed by newline is deleted   *)
(*            (the physical line ends, the logical line goes on) - in ANY  *)
(*            lexical state, including inside comments and literals;       *)
(*   phase 3: // and /* */ comments become one space; string and character *)
(*            literals are opaque (escape = backslash + any character).    *)
(* A physical line is COUNTED iff at least one non-white-space character   *)
(* outside comments lies on it.  A logical line whose first such character *)
(* is # is a DIRECTIVE (it covers all its counted physical lines), any     *)
(* other logical line with counted lines is CODE.                          *)
(*                                                                         *)
(* Characters are one-character strings; "\n" is newline, "\\" backslash.  *)
(* Scan(text) returns                                                      *)
(*   counted : set of physical line numbers                                *)
(*   logical : Seq([cat |-> "dir"|"code", lines |-> set])  in order        *)
(*   ok      : the text is well-formed (no unterminated literal or         *)
(*             comment, no stray backslash outside literals, ends in       *)
(*             newline or is empty)                                        *)
(***************************************************************************)
EXTENDS Naturals, Sequences, FiniteSets, TLC

IsWs(c) == c \in {" ", "\t"}

\* scanner state:
\*  st   : "N" normal | "SL" after a '/' (may start a comment) | "LC" line comment | "BLK" | "BLKS" (saw '*')
\*         | "STR" | "STRE" (after backslash in string) | "CHR" | "CHRE"
\*  line : current physical line (1-based)
\*  slashline : physical line on which the pending '/' of state SL stands
\*  cur  : counted physical lines of the current logical line
\*  first: "none" | "hash" | "other"   first significant character of the logical line
\*  kw, kwst : the directive name of a logical line that starts with # (letters right after the #, white
\*         space and comments between # and the name allowed); kwst: "none" | "pre" | "in" | "done"
Init0 == [st |-> "N", line |-> 1, slashline |-> 0, cur |-> {}, first |-> "none",
          counted |-> {}, logical |-> <<>>, ok |-> TRUE, kw |-> "", kwst |-> "none"]

Lower == {"a", "b", "c", "d", "e", "f", "g", "h", "i", "j", "k", "l", "m", "n", "o", "p", "q", "r", "s", "t", "u",
          "v", "w", "x", "y", "z"}
KwStep(s, c) ==
  IF s.first = "none" THEN (IF c = "#" THEN [kw |-> "", kwst |-> "pre"] ELSE [kw |-> "", kwst |-> "done"])
  ELSE IF s.kwst = "pre" THEN (IF c \in Lower THEN [kw |-> c, kwst |-> "in"] ELSE [kw |-> "", kwst |-> "done"])
  ELSE IF s.kwst = "in" THEN (IF c \in Lower THEN [kw |-> s.kw \o c, kwst |-> "in"] ELSE [kw |-> s.kw, kwst |-> "done"])
  ELSE [kw |-> s.kw, kwst |-> s.kwst]

\* first = "hashq": the logical line starts with '#', but if the very next character is another
\* '#' the token is ## (maximal munch) and the line is NOT a directive
Mark(s, ln, c) == [s EXCEPT !.cur = s.cur \cup {ln}, !.counted = s.counted \cup {ln},
                            !.kw = KwStep(s, c).kw, !.kwst = KwStep(s, c).kwst,
                            !.first = IF s.first = "none" THEN (IF c = "#" THEN "hashq" ELSE "other")
                                      ELSE IF s.first = "hashq" THEN (IF c = "#" THEN "other" ELSE "hash")
                                      ELSE s.first]
Settle(s) == [(IF s.first = "hashq" THEN [s EXCEPT !.first = "hash"] ELSE s) EXCEPT !.kwst = IF s.kwst = "in" THEN "done" ELSE s.kwst]

\* the pending '/' turned out to be an ordinary character: it is code on ITS line
FlushSlash(s) == [Mark(s, s.slashline, "/") EXCEPT !.st = "N"]

EndLogical(s) ==
  [s EXCEPT !.logical = IF s.cur = {} THEN s.logical
                        ELSE Append(s.logical, [cat |-> IF s.first \in {"hash", "hashq"} THEN "dir" ELSE "code", lines |-> s.cur,
                                                 kw |-> IF s.first \in {"hash", "hashq"} THEN s.kw ELSE ""]),
            !.cur = {}, !.first = "none", !.kw = "", !.kwst = "none"]

\* one character c (not part of a splice); nl handled separately
RECURSIVE Feed(_, _)
Feed(s, c) ==
  CASE s.st = "N" ->
         IF c = "/" THEN [Settle(s) EXCEPT !.st = "SL", !.slashline = s.line]
         ELSE IF c = "\"" THEN [Mark(s, s.line, c) EXCEPT !.st = "STR"]
         ELSE IF c = "'" THEN [Mark(s, s.line, c) EXCEPT !.st = "CHR"]
         ELSE IF c = "\\" THEN [Mark(s, s.line, c) EXCEPT !.ok = FALSE]     \* stray backslash
         ELSE IF IsWs(c) THEN Settle(s)
         ELSE Mark(s, s.line, c)
    [] s.st = "SL" ->
         IF c = "/" THEN [s EXCEPT !.st = "LC"]
         ELSE IF c = "*" THEN [s EXCEPT !.st = "BLK"]
         ELSE Feed(FlushSlash(s), c)
    [] s.st = "LC" -> s
    [] s.st = "BLK" -> IF c = "*" THEN [s EXCEPT !.st = "BLKS"] ELSE s
    [] s.st = "BLKS" -> IF c = "/" THEN [s EXCEPT !.st = "N"] ELSE IF c = "*" THEN s ELSE [s EXCEPT !.st = "BLK"]
    [] s.st = "STR" -> IF c = "\\" THEN [Mark(s, s.line, c) EXCEPT !.st = "STRE"]
                       ELSE IF c = "\"" THEN [Mark(s, s.line, c) EXCEPT !.st = "N"]
                       ELSE IF IsWs(c) THEN s ELSE Mark(s, s.line, c)
    [] s.st = "STRE" -> [(IF IsWs(c) THEN s ELSE Mark(s, s.line, c)) EXCEPT !.st = "STR"]
    [] s.st = "CHR" -> IF c = "\\" THEN [Mark(s, s.line, c) EXCEPT !.st = "CHRE"]
                       ELSE IF c = "'" THEN [Mark(s, s.line, c) EXCEPT !.st = "N"]
                       ELSE IF IsWs(c) THEN s ELSE Mark(s, s.line, c)
    [] s.st = "CHRE" -> [(IF IsWs(c) THEN s ELSE Mark(s, s.line, c)) EXCEPT !.st = "CHR"]

\* a newline that is not spliced away
Newline(s) ==
  LET s1 == IF s.st = "SL" THEN FlushSlash(s) ELSE s IN
  CASE s1.st \in {"N", "LC"} -> [EndLogical(s1) EXCEPT !.st = "N", !.line = s1.line + 1]
    [] s1.st \in {"BLK", "BLKS"} -> [s1 EXCEPT !.st = "BLK", !.line = s1.line + 1]   \* comment goes on; so does the logical line
    [] OTHER -> [EndLogical(s1) EXCEPT !.st = "N", !.line = s1.line + 1, !.ok = FALSE] \* unterminated literal

RECURSIVE ScanR(_, _, _)
ScanR(text, i, s) ==
  IF i > Len(text) THEN s
  ELSE LET c == text[i] IN
       IF c = "\\" /\ i < Len(text) /\ text[i + 1] = "\n"
       THEN \* splice: physical line ends, nothing else changes (a backslash-newline at the very end of
            \* an escape position is still a splice: phase 2 runs first)
            ScanR(text, i + 2, TLCEval([s EXCEPT !.line = s.line + 1]))
       ELSE IF c = "\n" THEN ScanR(text, i + 1, TLCEval(Newline(s)))
       ELSE ScanR(text, i + 1, TLCEval(Feed(s, c)))

Scan(text) ==
  LET s == ScanR(text, 1, Init0)
      endsNl == text = <<>> \/ text[Len(text)] = "\n"
      \* the last newline must be a real one, not the tail of a splice
      spliceEnd == Len(text) >= 2 /\ text[Len(text)] = "\n" /\ text[Len(text) - 1] = "\\"
  IN [counted |-> s.counted, logical |-> s.logical,
      ok |-> s.ok /\ endsNl /\ ~spliceEnd /\ s.st = "N" /\ s.cur = {}]
============================================================================
