----------------------------- MODULE GenC01 -----------------------------
(***************************************************************************)
(* Generator + design check for C01.                                       *)
(*                                                                         *)
(* Behaviours of this spec CONSTRUCT a single-file translation unit item   *)
(* by item (one code marker after every directive, as the renderer will    *)
(* do), exploring every well-nested directive sequence with at most MaxDir *)
(* directives and nesting depth at most MaxNest.  For every complete       *)
(* program:                                                                *)
(*   M  the invariant ImplMatchesRef compares the implementation model     *)
(*      (CbiVisitor) with the reference (PreprocCore) under EVERY          *)
(*      assignment of the -D definitions;                                  *)
(*   G  the action Emit prints the program and the reference's expected    *)
(*      attribution per configuration as one JSON line, which the harness  *)
(*      materialises and runs through the real code.                       *)
(***************************************************************************)
EXTENDS Naturals, Sequences, FiniteSets, TLC, Json, SequencesExt, PreprocCore

CONSTANTS MaxDir, MaxNest, Shard, NShards, EvalElifFirst, Rich,
          Skeleton   \* TRUE: conditions are the constants 0 / 1 only and there are no #define / #undef, so that
                     \* much longer chain structures (deeper nesting, more directives) can be enumerated

INSTANCE CbiVisitor

Macros == {"A", "B"}
CfgVals == {"U", "", "0", "1", "2"}
Cfgs == [Macros -> CfgVals]

Conds == IF Skeleton THEN {[t |-> "const", n |-> 0], [t |-> "const", n |-> 1]} ELSE
         {[t |-> "def", m |-> "A"], [t |-> "ndef", m |-> "A"], [t |-> "val", m |-> "A"],
          [t |-> "eq", m |-> "A", n |-> 1], [t |-> "defand", m |-> "A", m2 |-> "B"],
          [t |-> "const", n |-> 0], [t |-> "const", n |-> 1], [t |-> "plus", m |-> "A"]}
         \cup (IF Rich THEN {[t |-> "def", m |-> "B"], [t |-> "eq", m |-> "B", n |-> 2],
                             [t |-> "val", m |-> "B"], [t |-> "bad"]} ELSE {})
DefVals == IF Rich THEN {"", "1", "2"} ELSE {"1", "2"}
\* Rich: A may also be defined AS THE IDENTIFIER B ("m:B"), so that a condition naming A depends on B only
\* indirectly, through rescanning - B's value differs between the configurations analysed together
DefPairs == (Macros \X DefVals) \cup (IF Rich THEN {<<"A", "m:B">>} ELSE {})
Code == [k |-> "code"]

VARIABLES prog,    \* Seq(Item)
          open,    \* Seq of "if" | "else": the open chains and whether #else was seen
          nd,      \* number of directives so far
          done
vars == <<prog, open, nd, done>>

Init == prog = <<Code>> /\ open = <<>> /\ nd = 0 /\ done = FALSE

Add(it) == prog' = prog \o <<it, Code>> /\ nd' = nd + 1 /\ UNCHANGED done
\* room left to close every open chain
Room(extra) == nd + 1 + Len(open) + extra <= MaxDir

AddIf   == /\ ~done /\ Len(open) < MaxNest /\ Room(1)
           /\ \E c \in Conds : Add([k |-> "if", c |-> c])
           /\ open' = Append(open, "if")
AddElif == /\ ~done /\ open # <<>> /\ Top(open) = "if" /\ Room(0)
           /\ \E c \in Conds : Add([k |-> "elif", c |-> c])
           /\ UNCHANGED open
AddElse == /\ ~done /\ open # <<>> /\ Top(open) = "if" /\ Room(0)
           /\ Add([k |-> "else"]) /\ open' = SetTop(open, "else")
AddEndif == /\ ~done /\ open # <<>>
            /\ Add([k |-> "endif"]) /\ open' = Pop(open)
AddDefine == /\ ~done /\ Room(0) /\ ~Skeleton
             /\ \E mv \in DefPairs : Add([k |-> "define", m |-> mv[1], v |-> mv[2]])
             /\ UNCHANGED open
AddUndef == /\ ~done /\ Room(0) /\ ~Skeleton
            /\ \E m \in Macros : Add([k |-> "undef", m |-> m])
            /\ UNCHANGED open

Files == [main |-> [dir |-> "d0", name |-> "m.c", items |-> prog]]
Entry(cfg) == [file |-> "main", defs |-> cfg, idirs |-> <<>>, forced |-> <<>>, cwd |-> "d0"]

Ref(cfg) == RunTU(Files, Entry(cfg))
Impl(cfg) == Associate(prog, cfg)

Bits(S, n) == [i \in 1..n |-> IF i \in S THEN 1 ELSE 0]
RefIdx(r) == {x[2] : x \in r.attr}

\* compact: <<A, B, ok, attribution bits>>
Expected(cfg) ==
  LET r == Ref(cfg) IN
  <<cfg["A"], cfg["B"], IF r.err THEN 0 ELSE 1, Bits(RefIdx(r), Len(prog))>>

CfgSeq == SetToSeq(Cfgs)

\* cheap deterministic hash to split the printing work over TLC processes
Hash == (Len(prog) * 7 + nd * 3 +
         Cardinality({i \in 1..Len(prog) : prog[i].k \in {"if", "else", "define"}}) * 5 +
         Cardinality({i \in 1..Len(prog) : prog[i].k = "if" /\ prog[i].c.t \in {"def", "val", "const"}})) % NShards

Emit == /\ ~done /\ open = <<>> /\ nd > 0
        /\ done' = TRUE /\ UNCHANGED <<prog, open, nd>>
        /\ (Hash = Shard) =>
             PrintT(ToJson([prog |-> prog, exp |-> [i \in 1..Len(CfgSeq) |-> Expected(CfgSeq[i])]]))

Next == AddIf \/ AddElif \/ AddElse \/ AddEndif \/ AddDefine \/ AddUndef \/ Emit
Spec == Init /\ [][Next]_vars

--------------------------------------------------------------------------
\* M: on every complete program and every configuration that a compiler accepts, the
\* implementation model attributes exactly the reference's items, evaluates exactly the
\* reference's conditions (so an #elif after a taken branch is never evaluated), and does not fail.
ImplMatchesRef ==
  (open = <<>> /\ ~done) =>
     \A cfg \in Cfgs :
        LET r == Ref(cfg) i == Impl(cfg) IN
        ~r.err => (i.attr = RefIdx(r) /\ i.evald = {x[2] : x \in r.evald} /\ ~i.err /\ i.bt = <<>>)

\* the reference is total: it always terminates without exhausting its fuel on these programs
RefTotal == (open = <<>> /\ ~done) => \A cfg \in Cfgs : Ref(cfg).done

\* #define / #undef only act where reached: an unreached #define never changes the table
DefsOnlyWhereReached ==
  (open = <<>> /\ ~done) =>
     \A cfg \in Cfgs : LET r == Ref(cfg) IN
        \A m \in Macros : (r.defs[m] # cfg[m]) =>
           \E i \in 1..Len(prog) : prog[i].k \in {"define", "undef"} /\ prog[i].m = m /\ <<"main", i>> \in r.attr
==========================================================================
