------------------------------ MODULE GenArgv ------------------------------
(***************************************************************************)
(* Generator for C11: behaviours build an argument vector token by token   *)
(* from a catalogue of recognised options (both spellings; values with =,  *)
(* quotes, spaces, a leading dash) and of real gcc/clang/icx/nvcc options  *)
(* CBI does not model.  BFS enumerates every vector up to MaxLen pieces;   *)
(* Emit prints it with what the reference scan (Argv.Scan) extracts.       *)
(***************************************************************************)
EXTENDS Naturals, Sequences, FiniteSets, TLC, Json, Argv

CONSTANTS Profile, MaxLen, Shard, NShards

\* a piece is one or two argv elements
Rec == {<<"-includecfg=debug.h">>, <<"-isystemopt/x=y/include">>, <<"-include", "a=b.h">>, <<"-DEMPTY=">>, <<"-D", "EMPTY2=">>, <<"-DA">>, <<"-D", "B">>, <<"-DC=1">>, <<"-D", "E=x=y">>, <<"-DS=a b">>, <<"-DW=a  b">>, <<"-I", "two  blanks">>, <<"-DQ=\"q\"">>, <<"-DF(x)=x">>,
        <<"-DH=a#b">>,     \* '#' inside a word is an ordinary character of a shell command line (no comment starts there)
        <<"-Iinc">>, <<"-I", "inc2">>, <<"-I", "dir with space">>, <<"-I", "-dashdir">>, <<"-I.">>,
        <<"-isystem", "sys">>, <<"-isystemsys2">>, <<"-include", "pre.h">>, <<"-includepre2.h">>,
        \* values spelled like options that are otherwise ignored
        <<"-I", "-c">>, <<"-include", "-g3">>, <<"-isystem", "-O2">>}
Unk == {<<"-g3">>, <<"-ggdb">>, <<"-g">>, <<"-O">>, <<"-O2">>, <<"-Ofast">>, <<"-Wall">>, <<"-std=c11">>, <<"-MF", "dep.d">>,
        <<"-MD">>, <<"-fPIC">>, <<"-ccbin", "g++">>, <<"-x", "c++">>, <<"-march=native">>, <<"-cxx-isystem", "cxxdir">>,
        <<"@rsp">>, <<"-Wl,-rpath,/x">>, <<"-c">>, <<"-o", "out.o">>, <<"-oout2.o">>, <<"-pthread">>, <<"-fopenmp-simd">>,
        <<"-MT", "tgt">>, <<"-w">>, <<"-pipe">>, <<"-m64">>, <<"-Xlinker", "-z">>, <<"-isysroot", "/sdk">>,
        <<"-funroll-loops">>, <<"-ftemplate-depth=100">>, <<"-dM">>, <<"-E">>, <<"-S">>, <<"-v">>, <<"-Winvalid-pch">>,
        <<"-iquote", "qdir">>, <<"-idirafter", "adir">>, <<"-nostdinc">>, <<"-Dz">>}
Pieces == CASE Profile = "small" -> {<<"-includecfg=debug.h">>, <<"-isystemopt/x=y/include">>, <<"-DEMPTY=">>, <<"-DS=a b">>, <<"-DW=a  b">>, <<"-DA">>, <<"-D", "B">>, <<"-Iinc">>, <<"-I", "inc2">>, <<"-isystem", "sys">>, <<"-include", "pre.h">>,
                                     <<"-DH=a#b">>, <<"-g3">>, <<"-O2">>, <<"-MF", "dep.d">>, <<"-ccbin", "g++">>, <<"-O">>, <<"-c">>, <<"-o", "out.o">>,
                                     <<"-isystemsys2">>, <<"-includepre2.h">>, <<"-Wall">>, <<"-x", "c++">>, <<"-ggdb">>, <<"-I", "-c">>, <<"-include", "-g3">>}
            [] OTHER -> Rec \cup Unk

VARIABLES argv, n, done
vars == <<argv, n, done>>
Init == argv = <<>> /\ n = 0 /\ done = FALSE
Add == /\ ~done /\ n < MaxLen /\ \E p \in Pieces : argv' = argv \o p
       /\ n' = n + 1 /\ UNCHANGED done
Hash == (Len(argv) * 5 + Cardinality({i \in 1..Len(argv) : Len(argv[i]) > 4}) * 3
         + Cardinality({i \in 1..Len(argv) : Len(argv[i]) % 2 = 0})) % NShards
Emit == /\ ~done /\ done' = TRUE /\ UNCHANGED <<argv, n>>
        /\ (Hash = Shard) =>
             LET r == Scan(argv) IN
             PrintT(ToJson([argv |-> argv, defines |-> r.defines, idirs |-> r.idirs, sysdirs |-> r.sysdirs,
                            forced |-> r.forced, ok |-> r.ok]))
Next == Add \/ Emit
Spec == Init /\ [][Next]_vars

\* M: the scan is total and order preserving: what it extracts is a subsequence of the command
\* line's own values, and appending an unmodelled option never changes what was extracted
IsSubseqOfArgv(vals) == \A i \in 1..Len(vals) : \E j \in 1..Len(argv) :
                            argv[j] = vals[i] \/ (Len(argv[j]) > Len(vals[i]) /\
                                                  SubSeq(argv[j], Len(argv[j]) - Len(vals[i]) + 1, Len(argv[j])) = vals[i])
ScanSane == LET r == Scan(argv) IN
   r.ok => /\ IsSubseqOfArgv(r.defines) /\ IsSubseqOfArgv(r.idirs) /\ IsSubseqOfArgv(r.sysdirs) /\ IsSubseqOfArgv(r.forced)
           /\ \A u \in {<<"-Wall">>, <<"-MF", "dep.d">>, <<"-g3">>} :
                LET r2 == Scan(argv \o u) IN r2.defines = r.defines /\ r2.idirs = r.idirs /\ r2.sysdirs = r.sysdirs /\ r2.forced = r.forced
============================================================================
