SPECIFICATION Spec
CONSTANTS
  NL = 1
  Vals <- ValsQ8
INVARIANT Agree
CHECK_DEADLOCK FALSE
