------------------------------ MODULE MC_CInt ------------------------------
(***************************************************************************)
(* Cross-check of the limb arithmetic in CInt against TLC's native integer *)
(* arithmetic at width W = 8*NL bits (NL = 1: every pair of values;        *)
(* NL = 2: every pair from a boundary set).  The 64-bit instance used by   *)
(* CExpr is the same text with NL = 8.                                      *)
(***************************************************************************)
EXTENDS Naturals, Integers, Sequences, TLC
CONSTANTS NL, Vals
ValsAll8 == 0..255
ValsQ8 == {0, 1, 2, 3, 7, 8, 15, 16, 31, 63, 64, 65, 100, 126, 127, 128, 129, 130, 170, 192, 200, 253, 254, 255} \cup {5 * k : k \in 0..51}
ValsB16 == {0, 1, 2, 3, 7, 8, 15, 16, 127, 128, 129, 255, 256, 257, 511, 4095, 32766, 32767, 32768, 32769, 65279, 65280, 65534, 65535, 12345, 54321, 21845, 43690}
INSTANCE CInt

M == IF NL = 1 THEN 256 ELSE 65536
H == M \div 2
ToNat(a) == IF NL = 1 THEN a[1] ELSE a[1] + 256 * a[2]
ToInt(a) == IF ToNat(a) >= H THEN ToNat(a) - M ELSE ToNat(a)
Lim(n) == IF NL = 1 THEN <<n % 256>> ELSE <<n % 256, (n \div 256) % 256>>

VARIABLES x, y
Init == x \in Vals /\ y \in Vals
Next == UNCHANGED <<x, y>>
Spec == Init /\ [][Next]_<<x, y>>

a == Lim(x)
b == Lim(y)
TDiv(p, q) == IF (p < 0) # (q < 0) THEN -((IF p < 0 THEN -p ELSE p) \div (IF q < 0 THEN -q ELSE q))
              ELSE (IF p < 0 THEN -p ELSE p) \div (IF q < 0 THEN -q ELSE q)
TMod(p, q) == p - q * TDiv(p, q)
W == 8 * NL

Agree ==
  /\ ToNat(Add(a, b)) = (x + y) % M
  /\ ToNat(Sub(a, b)) = (x + M - y) % M
  /\ ToNat(Mul(a, b)) = (((x * (y \div 256)) % M) * 256 + x * (y % 256)) % M
  /\ ToNat(Neg(a)) = (M - x) % M
  /\ ToNat(NotL(a)) = M - 1 - x
  /\ LtU(a, b) = (x < y)
  /\ LtS(a, b) = (ToInt(a) < ToInt(b))
  /\ (y # 0 => /\ ToNat(DivModU(a, b).q) = x \div y
               /\ ToNat(DivModU(a, b).r) = x % y)
  /\ ((y # 0 /\ ~(ToInt(a) = -H /\ ToInt(b) = -1)) =>
               /\ ToInt(DivS(a, b)) = TDiv(ToInt(a), ToInt(b))
               /\ ToInt(ModS(a, b)) = TMod(ToInt(a), ToInt(b)))
  /\ AddOvf(a, b) = (ToInt(a) + ToInt(b) >= H \/ ToInt(a) + ToInt(b) < -H)
  /\ SubOvf(a, b) = (ToInt(a) - ToInt(b) >= H \/ ToInt(a) - ToInt(b) < -H)
  /\ MulOvf(a, b) = (ToInt(a) * ToInt(b) >= H \/ ToInt(a) * ToInt(b) < -H)
  /\ \A n \in 0..(W - 1) :
       /\ ToNat(Shl(a, n)) = ((x % (M \div (2 ^ n))) * (2 ^ n)) % M
       /\ ToNat(ShrU(a, n)) = x \div (2 ^ n)
       /\ ToInt(ShrS(a, n)) = (IF ToInt(a) >= 0 THEN ToInt(a) \div (2 ^ n)
                               ELSE -(((-ToInt(a)) + (2 ^ n) - 1) \div (2 ^ n)))
       /\ ShlOvf(a, n) = (ToInt(a) < 0 \/ ToInt(a) * (2 ^ n) >= H)
  /\ ToNat(AndL(a, b)) + ToNat(OrL(a, b)) = x + y
  /\ ToNat(XorL(a, b)) = ToNat(OrL(a, b)) - ToNat(AndL(a, b))
  /\ FromDigits(10, ToDec(a)).v = a
============================================================================
